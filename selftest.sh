#!/bin/sh
# Must-fail corpus: applies every seeded change (seeded/*/patch.diff) and every hand-written mutant
# (selftest/mutants/*.diff) to a scratch worktree of /repo (never to /repo itself), runs the check of the
# property it breaks against that worktree, and records whether the check reported a violation.
# The contract mirror and the shipped obligation lists are snapshotted at the start, so edits made while the corpus runs do not leak in.
# usage: selftest.sh [name-filter]
set -u
cd /verif
filter="${1:-}"
mode="${2:-}"
root=/tmp/govc-selftest
[ "$mode" = "thorough-corpus" ] && root="/tmp/govc-selftest-$(echo "$filter" | cut -d- -f1)"
wt=$root/wt
rm -rf "$root"; mkdir -p "$root/ev"
git -C /repo worktree prune
cp -r /verif/contracts "$root/contracts"   # snapshot: edits made while the corpus runs do not leak in
cp -r /verif/obligations "$root/obligations" # the shipped obligation lists belong to that snapshot
git -C /repo worktree add -f -q "$wt" HEAD || exit 2
out=seeded/RESULTS.txt
: > $root/results.txt
for d in seeded/*/ selftest/mutants/*/; do
  [ -f "$d/patch.diff" ] || continue
  n=$(basename "$d")
  case "$n" in *"$filter"*) ;; *) continue;; esac
  id=$(python3 -c "import json,sys; print(json.load(open('$d/meta.json')).get('property','') )" 2>/dev/null)
  [ -n "$id" ] || id=$(echo "$n" | cut -d- -f1)
  git -C "$wt" checkout -q -- . && git -C "$wt" clean -fdq
  if ! git -C "$wt" apply "/verif/$d/patch.diff" 2>/dev/null; then echo "$n $id PATCH-DOES-NOT-APPLY" >> $root/results.txt; continue; fi
  if python3 -c "import json,sys; sys.exit(0 if any(c['property_id']=='$id' for c in json.load(open('MANIFEST.json'))['checks']) else 1)"; then
    res=$(GOVC_ALT_ROOT=$root/scratch bin/govc check -repo "$wt" -contracts $root/contracts -baseline-dir $root/obligations -evidence $root/ev "$id" 2>&1)
    if echo "$res" | grep -q "^VIOLATION property=$id"; then
      ob=$(echo "$res" | grep "^   obligation" | head -2 | sed 's/^   obligation //' | cut -c1-110 | tr '\n' ';')
      echo "$n $id DETECTED $ob" >> $root/results.txt
    else
      echo "$n $id MISSED" >> $root/results.txt
    fi
  else
    echo "$n $id NOT-CLAIMED" >> $root/results.txt
  fi
done
git -C /repo worktree remove --force "$wt"
rm -rf $root/ev $root/scratch
cat $root/results.txt
if [ "$mode" = "thorough-corpus" ]; then
  : # called by ./check <id> thorough: the committed table is only read, never rewritten
elif [ -z "$filter" ]; then
  cp $root/results.txt "$out"
else
  # merge: replace the lines of the re-run seeds in the committed table
  python3 - "$out" $root/results.txt <<'PY'
import sys
out, new = sys.argv[1], sys.argv[2]
rows = {}
order = []
for path in (out, new):
    try:
        for line in open(path):
            k = line.split(' ', 1)[0]
            if k not in rows:
                order.append(k)
            rows[k] = line
    except FileNotFoundError:
        pass
open(out, 'w').write(''.join(rows[k] for k in sorted(order)))
PY
fi
exit 0
