#!/usr/bin/env python3
"""Regenerates /verif/MANIFEST.json from the table below (kept in one place so the manifest stays valid)."""
import json, os

TRUST = ("Trusted base: go/ssa+go/types (x/tools v0.29.0) as the semantics of the source; the govc VC generator; "
         "z3 4.8.12 / z3 5.1.0 / cvc5 1.0; the memory model of DESIGN.md 2.3 (typed heap maps, append returns a fresh array, "
         "sequential execution inside a function, no resource exhaustion). Assumed (listed per run in evidence.assumptions): "
         "trusted contracts on the Go standard library (contracts/_shared), intrinsic semantics of math.* functions, "
         "float-to-int conversion out of range unconstrained. ")

# id -> (claimed?, level text, note (what is NOT covered), technique, design_ref)
CLAIMS = {
}

NA = {
}

def load_tables():
    import importlib.util
    spec = importlib.util.spec_from_file_location("claims", os.path.join(os.path.dirname(__file__), "claims.py"))
    m = importlib.util.module_from_spec(spec); spec.loader.exec_module(m)
    return m.CLAIMS, m.NA

def main():
    claims, na = load_tables()
    checks = []
    for pid in sorted(claims):
        c = claims[pid]
        checks.append({
            "property_id": pid,
            "quick_cmd": "./check %s quick" % pid,
            "thorough_cmd": "./check %s thorough" % pid,
            "evidence_file": "/verif/evidence/%s.json" % pid,
            "replay_cmd_template": "bin/govc replay {path}",
            "engine": "govc",
            "level_claimed": {"category": "proof", "text": c["text"], "design_ref": c.get("design_ref", "DESIGN.md section 4")},
            "level_note": TRUST + c["note"],
            "technique": c["technique"],
        })
    man = {
        "version": 1,
        "setup_cmd": "cd /verif/engine && GOFLAGS=-mod=vendor GOPROXY=off GOSUMDB=off GOTOOLCHAIN=local go build -o /verif/bin/govc .",
        "hooks": {
            "guard": "verif",
            "enable": "go build -tags verif ./... (the hook files are comment-only contract files zz_contracts_verif.go; govc loads /repo with -tags=verif)",
            "baseline_off_cmd": "cd /repo && go build ./... && go test -vet=off -count=1 -timeout 25m ./...",
            "source_commits": json.load(open(os.path.join(os.path.dirname(__file__), "hook_commits.json"))) if os.path.exists(os.path.join(os.path.dirname(__file__), "hook_commits.json")) else [],
            "add_only": True,
        },
        "engines": [{
            "name": "govc",
            "path": "/verif/engine",
            "serves_properties": sorted(claims),
            "kind_free_text": "contract-based deductive verifier for Go written for this task: contracts as //@ comment files, weakest-precondition style VCs generated from go/ssa of /repo on every run, discharged by z3/cvc5; plus SSA dataflow obligations (frame, lock discipline, gate dominance) in the same obligation/evidence format",
        }],
        "checks": checks,
        "notes": "All checks are contract-based deductive verification of the real code (see DESIGN.md). Each claimed property is claimed only for the kernels under contract; level_note states what is not covered.",
        "not_applicable": [{"property_id": k, "reason": v} for k, v in sorted(na.items())],
    }
    json.dump(man, open(os.path.join(os.path.dirname(__file__), "MANIFEST.json"), "w"), indent=1)
    print("MANIFEST.json: %d checks, %d not_applicable" % (len(checks), len(na)))

if __name__ == "__main__":
    main()
