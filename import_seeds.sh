#!/bin/sh
# usage: import_seeds.sh <dir-with-SEED> <property-id>   (copies SEED/mutN into /verif/seeded/<id>-mutN)
set -u
src="$1"; id="$2"
for m in "$src"/SEED/mut*; do
  [ -f "$m/patch.diff" ] || continue
  n=$(basename "$m")
  dst="/verif/seeded/$id-$n"
  mkdir -p "$dst"
  cp "$m/patch.diff" "$dst/patch.diff"
  [ -f "$m/meta.json" ] && cp "$m/meta.json" "$dst/meta.json"
  [ -d "$m/demo" ] && cp -r "$m/demo" "$dst/" 
  for f in "$m"/*.go "$m"/*.txt "$m"/*.md; do [ -f "$f" ] && cp "$f" "$dst/"; done
  # the patch must apply to /repo's HEAD
  if git -C /repo apply --check "$dst/patch.diff" 2>/dev/null; then echo "$id-$n applies"; else echo "$id-$n DOES NOT APPLY"; fi
done
[ -f "$src/SEED/SIDE_FINDINGS.md" ] && cp "$src/SEED/SIDE_FINDINGS.md" "/verif/seeded/$id-SIDE_FINDINGS.md" && echo "side findings saved"
exit 0
