#!/bin/sh
# usage: import_seeds.sh <dir-with-SEED> <property-id>   (copies SEED/mutN into /verif/seeded/<id>-mutN)
set -u
src="$1"; id="$2"
for m in "$src"/SEED/mut*; do
  [ -f "$m/patch.diff" ] || continue
  n=$(basename "$m")
  dst="/verif/seeded/$id-$n"
  mkdir -p "$dst"
  cp "$m/patch.diff" "$dst/patch.diff"
  [ -f "$m/meta.json" ] && cp "$m/meta.json" "$dst/meta.json"
  [ -d "$m/demo" ] && cp -r "$m/demo" "$dst/" 
  for f in "$m"/*.go "$m"/*.txt "$m"/*.md; do [ -f "$f" ] && cp "$f" "$dst/"; done
  # the patch must apply to /repo's HEAD
  if git -C /repo apply --check "$dst/patch.diff" 2>/dev/null; then echo "$id-$n applies"; else echo "$id-$n DOES NOT APPLY"; fi
done
# usage: optional 3rd argument = round suffix (e.g. r4) so earlier rounds' notes are kept
sfx="${3:+_$3}"
[ -f "$src/SEED/SIDE_FINDINGS.md" ] && cp "$src/SEED/SIDE_FINDINGS.md" "/verif/seeded/$id-SIDE_FINDINGS$sfx.md" && echo "side findings saved"
[ -d "$src/SEED/side_demo" ] && rm -rf "/verif/seeded/$id-side_demo$sfx" && cp -r "$src/SEED/side_demo" "/verif/seeded/$id-side_demo$sfx" && echo "side demos saved"
exit 0
