package main

// Contract files: comment-only Go files (build tag verif) whose //@ lines carry the
// contracts. Keyed by function name and loop ordinal, never by line number.

import (
	"fmt"
	"os"
	"path/filepath"
	"regexp"
	"sort"
	"strconv"
	"strings"
)

type Clause struct {
	Props []string // properties this clause counts toward (empty = the block's)
	Kind  string   // requires ensures invariant decreases assert modifies
	Label string
	Loop  int
	Text  string
	E     Expr
	Line  int
}

type FuncContract struct {
	Pkg     string // import path
	Name    string // ToInt32, (*SourceMap).Find, rebuildImpl$1
	Arith   string // "bv" | "int"
	Safety  bool
	NoOvf   bool // arith int without overflow obligations (assumption)
	Trusted bool // contract assumed, body not verified (assumption, listed)
	Clauses []*Clause
	Props   []string
	Mods    []string // explicit modifies (heap map patterns); nil = inferred
	HasMods bool
	Opts    map[string]string
	File    string
	Line    int
	Sites   []*SiteClause
	Ghosts  []string
	Timeout int
	Unfold  int
	Witness []*Clause
}

type SiteClause struct {
	Props   []string
	Label   string
	Pattern string
	Kind    string // requires | assert
	Text    string
	E       Expr
	Line    int
}

type SpecFunc struct {
	Pkg    string
	Name   string
	Params []QVar
	Ret    string
	Body   Expr
	Rec    bool
	Text   string
	Line   int
}

type Axiom struct {
	Pkg     string
	Name    string
	E       Expr
	Text    string
	IsLemma bool
	Props   []string
	Arith   string
	Line    int
}

type Directive struct {
	Pkg  string
	Kind string // view protect constglobal etc.
	Text string
	Line int
}

type ContractSet struct {
	Funcs     map[string]*FuncContract // key pkg + "." + name
	Order     []string
	Specs     map[string]*SpecFunc // by name (global namespace)
	SpecOrder []string
	Axioms    []*Axiom
	Dirs      []*Directive
	Files     []string
	Notes     []string
}

func NewContractSet() *ContractSet {
	return &ContractSet{Funcs: map[string]*FuncContract{}, Specs: map[string]*SpecFunc{}}
}

var reClauseProps = regexp.MustCompile(`^\[((?:C\d+\s*)+)\]\s*(.*)$`)

// splitClauseProps strips a leading "[C11 C16]" tag.
func splitClauseProps(s string) ([]string, string) {
	if m := reClauseProps.FindStringSubmatch(strings.TrimSpace(s)); m != nil {
		return strings.Fields(m[1]), m[2]
	}
	return nil, s
}

var reLabel = regexp.MustCompile(`^([A-Za-z_][A-Za-z0-9_\-\.]*):\s*([^:].*)$`)
var rePkgLine = regexp.MustCompile(`^package\s+(\w+)`)

var clauseKeywords = map[string]bool{
	"func": true, "spec": true, "axiom": true, "lemma": true, "view": true, "protect": true,
	"constglobal": true, "arith": true, "requires": true, "ensures": true, "modifies": true,
	"decreases": true, "loop": true, "site": true, "ghost": true, "set": true, "safety": true,
	"trusted": true, "prop": true, "nooverflow": true, "opt": true, "timeout": true, "import": true, "witness": true,
	"pure": true, "pure-dynamic": true, "checked": true, "waitgroup": true, "hashed": true, "keyed": true, "guarded": true, "paired": true, "decides": true, "consulted": true, "unguarded": true, "flow": true, "frame": true, "order": true, "gate": true, "effect": true, "equal": true, "unfold": true,
}

// stripTrailingComment removes " // ..." outside string literals.
func stripTrailingComment(s string) string {
	inStr := byte(0)
	for i := 0; i+1 < len(s); i++ {
		c := s[i]
		if inStr != 0 {
			if c == '\\' {
				i++
			} else if c == inStr {
				inStr = 0
			}
			continue
		}
		if c == '"' || c == '\'' {
			inStr = c
			continue
		}
		if c == '/' && s[i+1] == '/' {
			return strings.TrimRight(s[:i], " \t")
		}
	}
	return s
}

// LoadContractFile parses one contract file; importPath is the package the file belongs to.
func (cs *ContractSet) LoadContractFile(path string, importPath string) error {
	data, err := os.ReadFile(path)
	if err != nil {
		return err
	}
	cs.Files = append(cs.Files, path)
	type rawLine struct {
		text string
		line int
	}
	var stmts []rawLine
	for i, ln := range strings.Split(string(data), "\n") {
		t := strings.TrimSpace(ln)
		if !strings.HasPrefix(t, "//@") {
			continue
		}
		t = strings.TrimSpace(t[3:])
		t = stripTrailingComment(t)
		if t == "" {
			continue
		}
		first := t
		if j := strings.IndexAny(t, " \t"); j >= 0 {
			first = t[:j]
		}
		if clauseKeywords[first] {
			stmts = append(stmts, rawLine{t, i + 1})
		} else {
			if len(stmts) == 0 {
				return fmt.Errorf("%s:%d: continuation line without a clause", path, i+1)
			}
			stmts[len(stmts)-1].text += " " + t
		}
	}
	var cur *FuncContract
	for _, st := range stmts {
		kw, rest := st.text, ""
		if j := strings.IndexAny(st.text, " \t"); j >= 0 {
			kw, rest = st.text[:j], strings.TrimSpace(st.text[j+1:])
		}
		where := fmt.Sprintf("%s:%d", path, st.line)
		parse := func(s string) (Expr, error) {
			e, err := ParseExpr(s)
			if err != nil {
				return nil, fmt.Errorf("%s: %v", where, err)
			}
			return e, nil
		}
		switch kw {
		case "func":
			name := rest
			pkg := importPath
			cur = &FuncContract{Pkg: pkg, Name: name, Arith: "int", File: path, Line: st.line, Opts: map[string]string{}}
			key := pkg + "." + name
			if _, dup := cs.Funcs[key]; dup {
				return fmt.Errorf("%s: duplicate contract for %s", where, key)
			}
			cs.Funcs[key] = cur
			cs.Order = append(cs.Order, key)
		case "spec":
			cur = nil
			sf, err := parseSpecFunc(rest, where)
			if err != nil {
				return err
			}
			sf.Pkg = importPath
			sf.Line = st.line
			if _, dup := cs.Specs[sf.Name]; dup {
				return fmt.Errorf("%s: duplicate spec func %s", where, sf.Name)
			}
			cs.Specs[sf.Name] = sf
			cs.SpecOrder = append(cs.SpecOrder, sf.Name)
		case "axiom", "lemma":
			cur = nil
			j := strings.Index(rest, ":")
			if j < 0 {
				return fmt.Errorf("%s: %s needs 'name: expr'", where, kw)
			}
			head := strings.Fields(strings.TrimSpace(rest[:j]))
			ax := &Axiom{Pkg: importPath, Name: head[0], Text: strings.TrimSpace(rest[j+1:]), IsLemma: kw == "lemma", Line: st.line, Arith: "int"}
			for _, h := range head[1:] {
				if h == "bv" || h == "int" {
					ax.Arith = h
				} else {
					ax.Props = append(ax.Props, h)
				}
			}
			e, err := parse(ax.Text)
			if err != nil {
				return err
			}
			ax.E = e
			cs.Axioms = append(cs.Axioms, ax)
		case "view", "protect", "constglobal", "import", "pure", "pure-dynamic", "checked", "waitgroup", "hashed", "keyed", "guarded", "paired", "decides", "consulted", "unguarded", "flow", "frame", "order", "gate", "effect", "equal":
			if cur != nil && (kw == "frame" || kw == "order" || kw == "equal") {
				cur.Opts[kw] = strings.TrimSpace(cur.Opts[kw] + " " + rest)
				break
			}
			cs.Dirs = append(cs.Dirs, &Directive{Pkg: importPath, Kind: kw, Text: rest, Line: st.line})
		default:
			if cur == nil {
				return fmt.Errorf("%s: clause %q outside a func block", where, kw)
			}
			switch kw {
			case "arith":
				if rest != "bv" && rest != "int" {
					return fmt.Errorf("%s: arith must be bv or int", where)
				}
				cur.Arith = rest
			case "safety":
				cur.Safety = true
			case "nooverflow":
				cur.NoOvf = rest == "off"
			case "trusted":
				cur.Trusted = true
			case "prop":
				cur.Props = append(cur.Props, strings.Fields(rest)...)
			case "opt":
				f := strings.SplitN(rest, " ", 2)
				v := "1"
				if len(f) > 1 {
					v = strings.TrimSpace(f[1])
				}
				cur.Opts[f[0]] = v
			case "timeout":
				n, _ := strconv.Atoi(rest)
				cur.Timeout = n
			case "unfold":
				n, _ := strconv.Atoi(rest)
				cur.Unfold = n
			case "modifies":
				cur.HasMods = true
				for _, m := range strings.Split(rest, ",") {
					m = strings.TrimSpace(m)
					if m != "" && m != "nothing" {
						cur.Mods = append(cur.Mods, m)
					}
				}
			case "ghost":
				cur.Ghosts = append(cur.Ghosts, rest)
			case "witness":
				m := reLabel.FindStringSubmatch(rest)
				if m == nil {
					return fmt.Errorf("%s: witness needs 'name: expr'", where)
				}
				e, err := parse(m[2])
				if err != nil {
					return err
				}
				cur.Witness = append(cur.Witness, &Clause{Kind: "witness", Label: m[1], Text: m[2], E: e, Line: st.line})
			case "requires", "ensures", "decreases", "assert":
				cl := &Clause{Kind: kw, Loop: -1, Line: st.line}
				txt := rest
				if m := reLabel.FindStringSubmatch(rest); m != nil && !strings.Contains(m[1], ".") {
					cl.Label = m[1]
					txt = m[2]
				}
				cl.Props, txt = splitClauseProps(txt)
				cl.Text = txt
				e, err := parse(txt)
				if err != nil {
					return err
				}
				cl.E = e
				cur.Clauses = append(cur.Clauses, cl)
			case "loop":
				f := strings.SplitN(rest, " ", 3)
				if len(f) < 3 {
					return fmt.Errorf("%s: loop N invariant|decreases expr", where)
				}
				n, err := strconv.Atoi(f[0])
				if err != nil {
					return fmt.Errorf("%s: loop ordinal: %v", where, err)
				}
				if f[1] != "invariant" && f[1] != "decreases" && f[1] != "exit" {
					return fmt.Errorf("%s: loop clause must be invariant, decreases or exit", where)
				}
				cl := &Clause{Kind: f[1], Loop: n, Line: st.line}
				txt := strings.TrimSpace(f[2])
				if m := reLabel.FindStringSubmatch(txt); m != nil && !strings.Contains(m[1], ".") {
					cl.Label = m[1]
					txt = m[2]
				}
				cl.Props, txt = splitClauseProps(txt)
				cl.Text = txt
				e, err := parse(txt)
				if err != nil {
					return err
				}
				cl.E = e
				cur.Clauses = append(cur.Clauses, cl)
			case "site", "set":
				// site LABEL: PATTERN requires|assert EXPR
				j := strings.Index(rest, ":")
				if j < 0 {
					return fmt.Errorf("%s: site needs 'label: pattern requires expr'", where)
				}
				sc := &SiteClause{Label: strings.TrimSpace(rest[:j]), Line: st.line}
				body := strings.TrimSpace(rest[j+1:])
				sc.Props, body = splitClauseProps(body)
				k := -1
				kind := ""
				for _, kk := range []string{" requires ", " assert "} {
					if x := strings.Index(body, kk); x >= 0 && (k < 0 || x < k) {
						k = x
						kind = strings.TrimSpace(kk)
					}
				}
				if k < 0 {
					sc.Pattern = body
					sc.Kind = kw
				} else {
					sc.Pattern = strings.TrimSpace(body[:k])
					sc.Kind = kind
					sc.Text = strings.TrimSpace(body[k+len(kind)+2:])
					e, err := parse(sc.Text)
					if err != nil {
						return err
					}
					sc.E = e
				}
				cur.Sites = append(cur.Sites, sc)
			default:
				return fmt.Errorf("%s: unknown clause %q", where, kw)
			}
		}
	}
	return nil
}

var reSpecHead = regexp.MustCompile(`^(rec\s+)?func\s+([A-Za-z_][A-Za-z0-9_]*)\s*\(([^)]*)\)\s*([^=]*?)\s*(=\s*(.*))?$`)

func parseSpecFunc(rest string, where string) (*SpecFunc, error) {
	m := reSpecHead.FindStringSubmatch(rest)
	if m == nil {
		return nil, fmt.Errorf("%s: bad spec func header: %q", where, rest)
	}
	sf := &SpecFunc{Name: m[2], Rec: m[1] != "", Ret: strings.TrimSpace(m[4]), Text: rest}
	params := strings.TrimSpace(m[3])
	if params != "" {
		var pending []string
		for _, p := range strings.Split(params, ",") {
			f := strings.Fields(strings.TrimSpace(p))
			if len(f) == 1 {
				pending = append(pending, f[0])
				continue
			}
			if len(f) < 2 {
				return nil, fmt.Errorf("%s: bad spec param %q", where, p)
			}
			ty := strings.Join(f[1:], "")
			for _, n := range pending {
				sf.Params = append(sf.Params, QVar{n, ty})
			}
			pending = nil
			sf.Params = append(sf.Params, QVar{f[0], ty})
		}
		if len(pending) > 0 {
			return nil, fmt.Errorf("%s: spec params without type: %v", where, pending)
		}
	}
	if m[6] != "" {
		e, err := ParseExpr(m[6])
		if err != nil {
			return nil, fmt.Errorf("%s: %v", where, err)
		}
		sf.Body = e
	}
	if sf.Ret == "" {
		sf.Ret = "bool"
	}
	return sf, nil
}

// LoadContracts reads contract files for the given import paths: /repo's copy when present,
// otherwise the mirror under /verif/contracts.
func LoadContracts(repo, mirror string, modPath string, importPaths []string) (*ContractSet, error) {
	cs := NewContractSet()
	// std / shared contracts first
	shared, _ := filepath.Glob(filepath.Join(mirror, "_shared", "*.go"))
	sort.Strings(shared)
	for _, f := range shared {
		if err := cs.LoadContractFile(f, "_shared"); err != nil {
			return nil, err
		}
	}
	for _, ip := range importPaths {
		rel := strings.TrimPrefix(strings.TrimPrefix(ip, modPath), "/")
		repoFiles, _ := filepath.Glob(filepath.Join(repo, rel, "zz_contracts*_verif.go"))
		mirrorFiles, _ := filepath.Glob(filepath.Join(mirror, rel, "zz_contracts*_verif.go"))
		files := repoFiles
		if len(files) == 0 {
			files = mirrorFiles
			if len(files) > 0 {
				cs.Notes = append(cs.Notes, "contracts for "+ip+" read from /verif mirror (repo copy absent)")
			}
		} else if len(mirrorFiles) > 0 {
			// /verif/contracts is the source of truth; the repo copy is the hook commit. If they differ
			// (contracts edited after the last hook commit) the mirror is used and the fact is noted.
			same := len(repoFiles) == len(mirrorFiles)
			if same {
				for i := range repoFiles {
					a, _ := os.ReadFile(repoFiles[i])
					b, _ := os.ReadFile(mirrorFiles[i])
					if string(a) != string(b) {
						same = false
					}
				}
			}
			if !same {
				files = mirrorFiles
				cs.Notes = append(cs.Notes, "contracts for "+ip+": repo copy differs from /verif/contracts; the mirror was used")
			}
		}
		sort.Strings(files)
		for _, f := range files {
			if err := cs.LoadContractFile(f, ip); err != nil {
				return nil, err
			}
		}
	}
	return cs, nil
}
