package main

import (
	"fmt"
	"go/token"
	"go/types"
	"math/big"

	"golang.org/x/tools/go/ssa"
)

func fpRM() string { return "RNE" }

// constOf returns the integer constant value of an SMT literal Val produced from an ssa.Const, if any.
func constIntOf(v ssa.Value) (*big.Int, bool) {
	c, ok := v.(*ssa.Const)
	if !ok || c.Value == nil {
		return nil, false
	}
	if _, _, isInt := intInfo(c.Type()); !isInt {
		return nil, false
	}
	return constBig(c.Value)
}

// maskRuns decomposes a non-negative constant into runs of set bits [lo,hi).
func maskRuns(c *big.Int) [][2]int {
	var runs [][2]int
	n := c.BitLen()
	i := 0
	for i < n {
		if c.Bit(i) == 0 {
			i++
			continue
		}
		j := i
		for j < n && c.Bit(j) == 1 {
			j++
		}
		runs = append(runs, [2]int{i, j})
		i = j
	}
	return runs
}

// intAndConst encodes x & c for mathematical-int mode (two's complement semantics via floor div/mod).
func intAndConst(x string, c *big.Int) string {
	if c.Sign() == 0 {
		return "0"
	}
	var parts []string
	for _, r := range maskRuns(c) {
		t := x
		if r[0] > 0 {
			t = app("div", x, pow2(r[0]).String())
		}
		t = app("mod", t, pow2(r[1]-r[0]).String())
		if r[0] > 0 {
			t = app("*", t, pow2(r[0]).String())
		}
		parts = append(parts, t)
	}
	if len(parts) == 1 {
		return parts[0]
	}
	return app("+", parts...)
}

func (f *Frame) binop(in ssa.Instruction, op token.Token, x, y Val, rt types.Type) Val {
	g := f.g
	t := x.GT
	if t == nil {
		t = y.GT
	}
	var xin, yin ssa.Value
	if b, ok := in.(*ssa.BinOp); ok {
		xin, yin = b.X, b.Y
	}
	switch {
	case isFloat(t):
		return g.floatBinop(op, x, y, rt)
	case isString(t):
		switch op {
		case token.ADD:
			return g.strConcat(x.S, y.S)
		case token.EQL:
			return g.boolVal(eq(x.S, y.S))
		case token.NEQ:
			return g.boolVal(not(eq(x.S, y.S)))
		case token.LSS:
			g.needStrLt()
			return g.boolVal(app("gstr.lt", x.S, y.S))
		case token.GTR:
			g.needStrLt()
			return g.boolVal(app("gstr.lt", y.S, x.S))
		case token.LEQ:
			g.needStrLt()
			return g.boolVal(not(app("gstr.lt", y.S, x.S)))
		case token.GEQ:
			g.needStrLt()
			return g.boolVal(not(app("gstr.lt", x.S, y.S)))
		}
	case isBool(t):
		switch op {
		case token.EQL:
			return g.boolVal(eq(x.S, y.S))
		case token.NEQ:
			return g.boolVal(not(eq(x.S, y.S)))
		case token.LAND, token.AND:
			return g.boolVal(and(x.S, y.S))
		case token.LOR, token.OR:
			return g.boolVal(or(x.S, y.S))
		}
	}
	if bits, signed, ok := intInfo(t); ok {
		if op == token.SHL || op == token.SHR {
			return f.shift(in, op, x, y, yin, bits, signed, rt)
		}
		if g.BV {
			return g.bvBinop(f, in, op, x, y, bits, signed, rt)
		}
		return f.intBinop(in, op, x, y, xin, yin, bits, signed, rt)
	}
	// pointers, interfaces, structs, etc.: equality only
	switch op {
	case token.EQL, token.NEQ:
		var e string
		if _, isIface := t.Underlying().(*types.Interface); isIface {
			e = g.ifaceEq(x, y)
		} else {
			e = eq(x.S, y.S)
		}
		if op == token.NEQ {
			e = not(e)
		}
		return g.boolVal(e)
	}
	g.note(fmt.Sprintf("unsupported binary op %s on %s", op, t))
	return g.havocVal("binop", rt)
}

func (g *Gen) needStrLt() {
	if !g.useStrLt {
		g.useStrLt = true
		g.decl(strLtAxioms)
	}
}

func (g *Gen) ifaceEq(x, y Val) string {
	if x.S == "niliface" || y.S == "niliface" {
		o := x
		if x.S == "niliface" {
			o = y
		}
		return eq(app("i_tag", o.S), "0")
	}
	// pointer-shaped dynamic types compare by identity; boxed values by content (not modelled precisely)
	// iface.eq is a function of its operands, so the same comparison in code and in a contract is the same term
	g.declFun("iface.eq", []string{"Iface", "Iface"}, "Bool")
	r := app("iface.eq", x.S, y.S)
	g.declFun("ptrshaped!tag", []string{"Int"}, "Bool")
	g.assume(implies(eq(x.S, y.S), r))
	g.assume(implies(not(eq(app("i_tag", x.S), app("i_tag", y.S))), not(r)))
	g.assume(implies(app("ptrshaped!tag", app("i_tag", x.S)), eq(r, eq(x.S, y.S))))
	return r
}

func (g *Gen) floatBinop(op token.Token, x, y Val, rt types.Type) Val {
	s := x.Sort
	switch op {
	case token.ADD:
		return Val{S: app("fp.add", fpRM(), x.S, y.S), Sort: s, GT: rt}
	case token.SUB:
		return Val{S: app("fp.sub", fpRM(), x.S, y.S), Sort: s, GT: rt}
	case token.MUL:
		return Val{S: app("fp.mul", fpRM(), x.S, y.S), Sort: s, GT: rt}
	case token.QUO:
		return Val{S: app("fp.div", fpRM(), x.S, y.S), Sort: s, GT: rt}
	case token.EQL:
		return g.boolVal(app("fp.eq", x.S, y.S))
	case token.NEQ:
		return g.boolVal(not(app("fp.eq", x.S, y.S)))
	case token.LSS:
		return g.boolVal(app("fp.lt", x.S, y.S))
	case token.LEQ:
		return g.boolVal(app("fp.leq", x.S, y.S))
	case token.GTR:
		return g.boolVal(app("fp.gt", x.S, y.S))
	case token.GEQ:
		return g.boolVal(app("fp.geq", x.S, y.S))
	}
	g.note("unsupported float op " + op.String())
	return g.havocVal("fop", rt)
}

func (g *Gen) bvBinop(f *Frame, in ssa.Instruction, op token.Token, x, y Val, bits int, signed bool, rt types.Type) Val {
	s := x.Sort
	pick := func(sg, us string) string {
		if signed {
			return sg
		}
		return us
	}
	switch op {
	case token.ADD:
		return Val{S: app("bvadd", x.S, y.S), Sort: s, GT: rt}
	case token.SUB:
		return Val{S: app("bvsub", x.S, y.S), Sort: s, GT: rt}
	case token.MUL:
		return Val{S: app("bvmul", x.S, y.S), Sort: s, GT: rt}
	case token.QUO:
		if f != nil {
			f.safetyOblig("div-zero", in, not(eq(y.S, bvLit(bigZero, bits))))
		}
		return Val{S: app(pick("bvsdiv", "bvudiv"), x.S, y.S), Sort: s, GT: rt}
	case token.REM:
		if f != nil {
			f.safetyOblig("div-zero", in, not(eq(y.S, bvLit(bigZero, bits))))
		}
		return Val{S: app(pick("bvsrem", "bvurem"), x.S, y.S), Sort: s, GT: rt}
	case token.AND:
		return Val{S: app("bvand", x.S, y.S), Sort: s, GT: rt}
	case token.OR:
		return Val{S: app("bvor", x.S, y.S), Sort: s, GT: rt}
	case token.XOR:
		return Val{S: app("bvxor", x.S, y.S), Sort: s, GT: rt}
	case token.AND_NOT:
		return Val{S: app("bvand", x.S, app("bvnot", y.S)), Sort: s, GT: rt}
	case token.EQL:
		return g.boolVal(eq(x.S, y.S))
	case token.NEQ:
		return g.boolVal(not(eq(x.S, y.S)))
	case token.LSS:
		return g.boolVal(app(pick("bvslt", "bvult"), x.S, y.S))
	case token.LEQ:
		return g.boolVal(app(pick("bvsle", "bvule"), x.S, y.S))
	case token.GTR:
		return g.boolVal(app(pick("bvsgt", "bvugt"), x.S, y.S))
	case token.GEQ:
		return g.boolVal(app(pick("bvsge", "bvuge"), x.S, y.S))
	}
	g.note("unsupported bv op " + op.String())
	return g.havocVal("bvop", rt)
}

func (f *Frame) intBinop(in ssa.Instruction, op token.Token, x, y Val, xin, yin ssa.Value, bits int, signed bool, rt types.Type) Val {
	g := f.g
	lo, hi := intRange(bits, signed)
	wrap := func(r string) Val {
		if !signed {
			if g.FC != nil && g.FC.Opts["no-unsigned-wrap"] != "" && (op == token.ADD || op == token.MUL) {
				// assumption (listed): unsigned counters of this function never wrap around; executions on which
				// they would are not considered
				g.Assumptions["no-unsigned-wrap: unsigned additions/multiplications in "+g.FC.Name+" are assumed not to wrap around (counters stay below 2^"+fmt.Sprint(bits)+")"] = true
				g.assume(implies(f.curReach, app("<", r, pow2(bits).String())))
				return Val{S: r, Sort: "Int", GT: rt}
			}
			return Val{S: app("mod", r, pow2(bits).String()), Sort: "Int", GT: rt}
		}
		if in != nil {
			f.overflowOblig(in, and(app("<=", smtInt(lo), r), app("<=", r, smtInt(hi))))
		}
		return Val{S: r, Sort: "Int", GT: rt}
	}
	var cx, cy *big.Int
	if xin != nil {
		cx, _ = constIntOf(xin)
	}
	if yin != nil {
		cy, _ = constIntOf(yin)
	}
	if x.Big != nil {
		cx = x.Big
	}
	if y.Big != nil {
		cy = y.Big
	}
	// a constant argument of an inlined callee arrives as a literal term
	if cx == nil && isDecimalLit(x.S) {
		cx, _ = new(big.Int).SetString(x.S, 10)
	}
	if cy == nil && isDecimalLit(y.S) {
		cy, _ = new(big.Int).SetString(y.S, 10)
	}
	switch op {
	case token.ADD:
		return wrap(app("+", x.S, y.S))
	case token.SUB:
		return wrap(app("-", x.S, y.S))
	case token.MUL:
		return wrap(app("*", x.S, y.S))
	case token.QUO:
		if in != nil {
			f.safetyOblig("div-zero", in, not(eq(y.S, "0")))
		}
		if cy != nil && cy.Sign() > 0 && !signed {
			return Val{S: app("div", x.S, cy.String()), Sort: "Int", GT: rt}
		}
		return Val{S: app("go.div", x.S, y.S), Sort: "Int", GT: rt}
	case token.REM:
		if in != nil {
			f.safetyOblig("div-zero", in, not(eq(y.S, "0")))
		}
		if cy != nil && cy.Sign() > 0 && !signed {
			return Val{S: app("mod", x.S, cy.String()), Sort: "Int", GT: rt}
		}
		return Val{S: app("go.rem", x.S, y.S), Sort: "Int", GT: rt}
	case token.AND, token.OR, token.XOR, token.AND_NOT:
		c, v := cy, x
		if c == nil && op != token.AND_NOT {
			c, v = cx, y
		}
		if c != nil && c.Sign() < 0 && !signed {
			c = new(big.Int).Mod(c, pow2(bits))
		}
		if c != nil && c.Sign() >= 0 {
			a := intAndConst(v.S, c)
			switch op {
			case token.AND:
				return Val{S: a, Sort: "Int", GT: rt}
			case token.OR:
				return Val{S: app("-", app("+", v.S, c.String()), a), Sort: "Int", GT: rt}
			case token.XOR:
				return Val{S: app("-", app("+", v.S, c.String()), app("*", "2", a)), Sort: "Int", GT: rt}
			case token.AND_NOT:
				return Val{S: app("-", v.S, a), Sort: "Int", GT: rt}
			}
		}
		g.note("bitwise op on two non-constant operands in arith int: uninterpreted")
		name := map[token.Token]string{token.AND: "int.and", token.OR: "int.or", token.XOR: "int.xor", token.AND_NOT: "int.and"}[op]
		r := Val{S: app(name, x.S, y.S), Sort: "Int", GT: rt}
		if op == token.AND_NOT {
			r = Val{S: app("-", x.S, app("int.and", x.S, y.S)), Sort: "Int", GT: rt}
		}
		g.assume(g.typeInv(r, ""))
		return r
	case token.EQL:
		return g.boolVal(eq(x.S, y.S))
	case token.NEQ:
		return g.boolVal(not(eq(x.S, y.S)))
	case token.LSS:
		return g.boolVal(app("<", x.S, y.S))
	case token.LEQ:
		return g.boolVal(app("<=", x.S, y.S))
	case token.GTR:
		return g.boolVal(app(">", x.S, y.S))
	case token.GEQ:
		return g.boolVal(app(">=", x.S, y.S))
	}
	g.note("unsupported int op " + op.String())
	return g.havocVal("iop", rt)
}

func (f *Frame) shift(in ssa.Instruction, op token.Token, x, y Val, yin ssa.Value, bits int, signed bool, rt types.Type) Val {
	g := f.g
	ybits, ysigned := 64, true
	if y.GT != nil {
		ybits, ysigned, _ = intInfo(y.GT)
	}
	if g.BV {
		cnt := y.S
		if y.Untyped {
			cnt = bvLit(y.Big, bits)
			ybits = bits
		}
		if ysigned && in != nil {
			f.safetyOblig("negative-shift", in, app("bvsge", cnt, bvLit(bigZero, ybits)))
		}
		// saturate the count to the operand width
		var c string
		if ybits > bits {
			big1 := bvLit(big.NewInt(int64(bits)), ybits)
			c = fmt.Sprintf("((_ extract %d 0) %s)", bits-1, ite(app("bvuge", cnt, big1), big1, cnt))
		} else if ybits < bits {
			c = fmt.Sprintf("((_ zero_extend %d) %s)", bits-ybits, cnt)
		} else {
			c = cnt
		}
		if op == token.SHL {
			return Val{S: app("bvshl", x.S, c), Sort: x.Sort, GT: rt}
		}
		if signed {
			return Val{S: app("bvashr", x.S, c), Sort: x.Sort, GT: rt}
		}
		return Val{S: app("bvlshr", x.S, c), Sort: x.Sort, GT: rt}
	}
	var cy *big.Int
	if yin != nil {
		cy, _ = constIntOf(yin)
	}
	if y.Big != nil {
		cy = y.Big
	}
	if cy == nil && ysigned && in != nil {
		f.safetyOblig("negative-shift", in, app(">=", y.S, "0"))
	}
	if cy != nil && cy.Sign() >= 0 && cy.IsInt64() && cy.Int64() < 512 {
		k := int(cy.Int64())
		if op == token.SHR {
			if k >= bits {
				if signed {
					return Val{S: ite(app("<", x.S, "0"), "(- 1)", "0"), Sort: "Int", GT: rt}
				}
				return Val{S: "0", Sort: "Int", GT: rt}
			}
			return Val{S: app("div", x.S, pow2(k).String()), Sort: "Int", GT: rt}
		}
		r := app("*", x.S, pow2(k).String())
		if !signed {
			return Val{S: app("mod", r, pow2(bits).String()), Sort: "Int", GT: rt}
		}
		lo, hi := intRange(bits, signed)
		if in != nil {
			f.overflowOblig(in, and(app("<=", smtInt(lo), r), app("<=", r, smtInt(hi))))
		}
		return Val{S: r, Sort: "Int", GT: rt}
	}
	g.note("shift by a non-constant count in arith int: uninterpreted")
	name := "int.shl"
	if op == token.SHR {
		name = "int.shr"
	}
	r := Val{S: app(name, x.S, y.S), Sort: "Int", GT: rt}
	g.assume(g.typeInv(r, ""))
	return r
}

// convert models Go conversions between basic types.
func (g *Gen) convert(x Val, to types.Type, f *Frame) Val {
	from := x.GT
	ts := g.sortOf(to)
	if from == nil {
		return Val{S: x.S, Sort: ts, GT: to}
	}
	fb, fsigned, fint := intInfo(from)
	tb, tsigned, tint := intInfo(to)
	switch {
	case fint && tint:
		if x.Untyped {
			return g.intLit(x.Big, to)
		}
		if g.BV {
			switch {
			case tb == fb:
				return Val{S: x.S, Sort: ts, GT: to}
			case tb < fb:
				return Val{S: fmt.Sprintf("((_ extract %d 0) %s)", tb-1, x.S), Sort: ts, GT: to}
			case fsigned:
				return Val{S: fmt.Sprintf("((_ sign_extend %d) %s)", tb-fb, x.S), Sort: ts, GT: to}
			default:
				return Val{S: fmt.Sprintf("((_ zero_extend %d) %s)", tb-fb, x.S), Sort: ts, GT: to}
			}
		}
		flo, fhi := intRange(fb, fsigned)
		tlo, thi := intRange(tb, tsigned)
		if flo.Cmp(tlo) >= 0 && fhi.Cmp(thi) <= 0 {
			return Val{S: x.S, Sort: "Int", GT: to}
		}
		m := pow2(tb).String()
		if !tsigned {
			return Val{S: app("mod", x.S, m), Sort: "Int", GT: to}
		}
		half := pow2(tb - 1).String()
		return Val{S: app("-", app("mod", app("+", x.S, half), m), half), Sort: "Int", GT: to}
	case fint && isFloat(to):
		if x.Untyped {
			fv, _ := new(big.Float).SetInt(x.Big).Float64()
			if isFloat32(to) {
				return Val{S: fpLit32(float32(fv)), Sort: "Float32", GT: to}
			}
			return Val{S: fpLit64(fv), Sort: "Float64", GT: to}
		}
		eb, sb := 11, 53
		if isFloat32(to) {
			eb, sb = 8, 24
		}
		if g.BV {
			if fsigned {
				return Val{S: fmt.Sprintf("((_ to_fp %d %d) RNE %s)", eb, sb, x.S), Sort: ts, GT: to}
			}
			return Val{S: fmt.Sprintf("((_ to_fp_unsigned %d %d) RNE %s)", eb, sb, x.S), Sort: ts, GT: to}
		}
		return Val{S: fmt.Sprintf("((_ to_fp %d %d) RNE (to_real %s))", eb, sb, x.S), Sort: ts, GT: to}
	case isFloat(from) && tint:
		// in range: truncation toward zero; otherwise implementation-defined (unconstrained)
		lo, hi := intRange(tb, tsigned)
		mk := func(v *big.Int) string {
			fv, _ := new(big.Float).SetInt(v).Float64()
			if isFloat32(from) {
				return fpLit32(float32(fv))
			}
			return fpLit64(fv)
		}
		hiP1 := new(big.Int).Add(hi, big.NewInt(1))
		var inRange string
		mant := 53
		if isFloat32(from) {
			mant = 24
		}
		if tsigned && tb-1 >= mant {
			inRange = and(app("fp.geq", x.S, mk(lo)), app("fp.lt", x.S, mk(hiP1)))
		} else {
			loM1 := new(big.Int).Sub(lo, big.NewInt(1))
			inRange = and(app("fp.gt", x.S, mk(loM1)), app("fp.lt", x.S, mk(hiP1)))
		}
		var conv string
		if g.BV {
			if tsigned {
				conv = fmt.Sprintf("((_ fp.to_sbv %d) RTZ %s)", tb, x.S)
			} else {
				conv = fmt.Sprintf("((_ fp.to_ubv %d) RTZ %s)", tb, x.S)
			}
		} else {
			conv = fmt.Sprintf("(to_int (fp.to_real (fp.roundToIntegral RTZ %s)))", x.S)
		}
		und := g.havocVal("fptoint_undef", to)
		g.fpUndefSigned[und.S] = tsigned
		g.assume(g.typeInv(und, ""))
		g.Assumptions["float-to-integer conversion out of range is unconstrained (implementation-defined in Go)"] = true
		return Val{S: ite(inRange, conv, und.S), Sort: ts, GT: to}
	case isFloat(from) && isFloat(to):
		if isFloat32(from) == isFloat32(to) {
			return Val{S: x.S, Sort: ts, GT: to}
		}
		if isFloat32(to) {
			return Val{S: fmt.Sprintf("((_ to_fp 8 24) RNE %s)", x.S), Sort: ts, GT: to}
		}
		return Val{S: fmt.Sprintf("((_ to_fp 11 53) RNE %s)", x.S), Sort: ts, GT: to}
	case isString(from) && isString(to):
		return Val{S: x.S, Sort: ts, GT: to}
	}
	// string <-> []byte etc.
	if f != nil {
		if st, ok := to.Underlying().(*types.Slice); ok && isString(from) {
			if b, ok := st.Elem().Underlying().(*types.Basic); ok && b.Kind() == types.Uint8 {
				return f.bytesOfString(x, to)
			}
		}
		if st, ok := from.Underlying().(*types.Slice); ok && isString(to) {
			if b, ok := st.Elem().Underlying().(*types.Basic); ok && b.Kind() == types.Uint8 {
				return f.stringOfBytes(x, to)
			}
		}
	}
	if g.sortOf(from) == ts {
		return Val{S: x.S, Sort: ts, GT: to}
	}
	g.note(fmt.Sprintf("unsupported conversion %s -> %s", from, to))
	return g.havocVal("conv", to)
}

func (f *Frame) bytesOfString(x Val, to types.Type) Val {
	g := f.g
	p := f.newObjID()
	pn := g.freshConst("bytes", "Ptr")
	g.assume(eq(pn, p))
	key := "E|" + typeKey(tByte)
	g.ensureKey(key, g.sortOf(tByte))
	arr := g.freshConst("bytesarr", fmt.Sprintf("(Array %s %s)", g.idxSort(), g.sortOf(tByte)))
	ix := g.idxSort()
	g.assume(fmt.Sprintf("(forall ((i %s)) (! (=> (and %s %s) (= (select %s i) (gstr.at %s i))) :pattern ((select %s i))))", ix,
		g.icmp("<=", g.idxLit(0), "i", true), g.icmp("<", "i", app("gstr.len", x.S), true), arr, x.S, arr))
	f.cur.set(key, app("store", f.cur.get(key), pn, arr))
	return Val{S: app("mk-slice", pn, g.idxLit(0), app("gstr.len", x.S), app("gstr.len", x.S)), Sort: "Slice", GT: to}
}

func (f *Frame) stringOfBytes(x Val, to types.Type) Val {
	g := f.g
	s := g.freshConst("strof", "Str")
	key := "E|" + typeKey(tByte)
	g.ensureKey(key, g.sortOf(tByte))
	ix := g.idxSort()
	g.assume(eq(app("gstr.len", s), app("s_len", x.S)))
	g.assume(fmt.Sprintf("(forall ((i %s)) (! (=> (and %s %s) (= (gstr.at %s i) (select (select %s (s_arr %s)) %s))) :pattern ((gstr.at %s i))))", ix,
		g.icmp("<=", g.idxLit(0), "i", true), g.icmp("<", "i", app("s_len", x.S), true), s, f.cur.get(key), x.S, g.iadd(app("s_off", x.S), "i"), s))
	return Val{S: s, Sort: "Str", GT: to}
}

func isDecimalLit(s string) bool {
	if s == "" || len(s) > 40 {
		return false
	}
	for _, c := range s {
		if c < '0' || c > '9' {
			return false
		}
	}
	return true
}
