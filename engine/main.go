package main

import (
	"flag"
	"fmt"
	"os"
	"sort"
	"strings"
	"time"
)

func main() {
	if len(os.Args) < 2 {
		fmt.Fprintln(os.Stderr, "usage: govc <vc|check|...>")
		os.Exit(2)
	}
	switch os.Args[1] {
	case "vc":
		cmdVC(os.Args[2:])
	case "check":
		cmdCheck(os.Args[2:])
	case "sweep":
		cmdSweep(os.Args[2:])
	default:
		fmt.Fprintln(os.Stderr, "unknown command", os.Args[1])
		os.Exit(2)
	}
}

// cmdVC: developer command: verify the contracts of the given packages, print per-obligation results.
func cmdVC(args []string) {
	fs := flag.NewFlagSet("vc", flag.ExitOnError)
	repo := fs.String("repo", "/repo", "repository root")
	mirror := fs.String("contracts", "/verif/contracts", "contract mirror")
	only := fs.String("func", "", "only functions whose name contains this")
	timeout := fs.Int("timeout", 10, "solver timeout (s)")
	out := fs.String("out", "/tmp/govc-vc", "directory for SMT files")
	showLoops := fs.Bool("loops", false, "print the loop ordinals of the selected functions and exit")
	fs.Parse(args)
	var pats, ips []string
	for _, a := range fs.Args() {
		pats = append(pats, "./"+a)
		ips = append(ips, modPath+"/"+a)
	}
	want := map[string]bool{}
	for _, ip := range ips {
		want[ip] = true
	}
	t0 := time.Now()
	p, err := LoadProgram(*repo, pats)
	if err != nil {
		fmt.Fprintln(os.Stderr, err)
		os.Exit(2)
	}
	ips = nil
	for path := range p.Pkgs {
		if strings.HasPrefix(path, modPath) {
			ips = append(ips, path)
		}
	}
	sort.Strings(ips)
	cs, err := LoadContracts(*repo, *mirror, modPath, ips)
	if err != nil {
		fmt.Fprintln(os.Stderr, err)
		os.Exit(2)
	}
	p.CS = cs
	fmt.Printf("loaded in %.1fs; %d function contracts\n", time.Since(t0).Seconds(), len(cs.Funcs))
	os.MkdirAll(*out, 0o755)
	bad := 0
	for _, key := range cs.Order {
		fc := cs.Funcs[key]
		if *only != "" && !strings.Contains(fc.Name, *only) {
			continue
		}
		if fc.Trusted || !want[fc.Pkg] {
			continue
		}
		if *showLoops {
			if fn := p.LookupFunc(fc.Pkg, fc.Name); fn != nil {
				fr := NewGen(p, fn, fc).newFrame(fn, "", true)
				for _, lp := range fr.loops {
					fmt.Printf("%s loop %d: header b%d at %s (%d blocks)\n", fc.Name, lp.Ordinal, lp.Header.Index, fr.pos(lastPos(lp.Header)), len(lp.Blocks))
				}
			}
			continue
		}
		g, err := VerifyFunc(p, fc)
		if err != nil {
			fmt.Println("ERROR", err)
			bad++
			continue
		}
		DischargeAll(g, *out, *timeout, 6)
		for _, o := range g.Obligs {
			mark := "ok  "
			if !o.OK() {
				mark = "FAIL"
				bad++
			}
			fmt.Printf("%s %-8s %-7s %5dms %s\n", mark, o.Status, o.Solver, o.Ms, o.Name)
			if !o.OK() && o.Solver == "dataflow" && o.Model != "" {
				fmt.Println("     why:", truncate(o.Model, 1200))
			}
			if o.Witness != "" {
				fmt.Printf("     witness: %s confirmed=%v\n", o.Witness, o.WitnessConfirmed)
				if !o.WitnessConfirmed {
					i := strings.Index(o.ReplayOut, "\noutput:\n")
					if i < 0 {
						i = 0
					}
					fmt.Println("     replay:", truncate(o.ReplayOut[i:], 1500))
				}
			}
			if !o.OK() && o.Model != "" {
				fmt.Println("     " + strings.ReplaceAll(truncate(o.Model, 1500), "\n", "\n     "))
			}
		}
		for _, n := range g.Notes {
			fmt.Println("  note:", n)
		}
	}
	if bad > 0 {
		os.Exit(1)
	}
}
