package main

import (
	"fmt"
	"go/token"
	"go/types"
	"os"
	"regexp"
	"sort"
	"strings"

	"golang.org/x/tools/go/packages"
	"golang.org/x/tools/go/ssa"
	"golang.org/x/tools/go/ssa/ssautil"
)

const modPath = "github.com/evanw/esbuild"

type Program struct {
	Repo             string
	Fset             *token.FileSet
	Prog             *ssa.Program
	Pkgs             map[string]*ssa.Package // by import path
	TPkgs            map[string]*packages.Package
	AllFuncs         map[*ssa.Function]bool
	CS               *ContractSet
	escaped          map[string]bool // struct-field key -> address escapes
	modsets          map[*ssa.Function]*ModSet
	LoadSecs         float64
	skipFresh        bool
	UsedCHA          bool
	chaCache         map[string][]*ssa.Function
	ownAll           map[*ssa.Function]bool
	modNames         map[string]bool
	UsedPureDynamic  map[string]bool
	constGlobals     map[*ssa.Global]*constGlobalInfo
	constGlobalStale []string
	whyAll           map[*ssa.Function]string
}

func LoadProgram(repo string, patterns []string) (*Program, error) {
	cfg := &packages.Config{
		Mode:       packages.LoadAllSyntax,
		Dir:        repo,
		BuildFlags: []string{"-tags=verif"},
		Env:        append(os.Environ(), "GOFLAGS=-mod=mod", "GOPROXY=off", "GOSUMDB=off", "GOTOOLCHAIN=local"),
	}
	pkgs, err := packages.Load(cfg, patterns...)
	if err != nil {
		return nil, err
	}
	var errs []string
	packages.Visit(pkgs, nil, func(p *packages.Package) {
		for _, e := range p.Errors {
			errs = append(errs, e.Error())
		}
	})
	if len(errs) > 0 {
		return nil, fmt.Errorf("package load errors: %s", strings.Join(errs, "; "))
	}
	prog, _ := ssautil.AllPackages(pkgs, ssa.GlobalDebug|ssa.InstantiateGenerics)
	prog.Build()
	p := &Program{Repo: repo, Fset: prog.Fset, Prog: prog, Pkgs: map[string]*ssa.Package{}, TPkgs: map[string]*packages.Package{},
		escaped: map[string]bool{}, modsets: map[*ssa.Function]*ModSet{}, UsedPureDynamic: map[string]bool{}}
	packages.Visit(pkgs, nil, func(tp *packages.Package) {
		p.TPkgs[tp.PkgPath] = tp
	})
	for _, sp := range prog.AllPackages() {
		p.Pkgs[sp.Pkg.Path()] = sp
	}
	p.AllFuncs = ssautil.AllFunctions(prog)
	p.computeEscapes()
	return p, nil
}

func fieldKey(named types.Type, idx int) string {
	return fmt.Sprintf("%s#%d", types.TypeString(named, func(p *types.Package) string { return p.Path() }), idx)
}

// computeEscapes marks struct fields whose address is used other than by an immediate
// load/store/field/index chain anywhere in the loaded program.
func (p *Program) computeEscapes() {
	for fn := range p.AllFuncs {
		for _, b := range fn.Blocks {
			for _, in := range b.Instrs {
				fa, ok := in.(*ssa.FieldAddr)
				if !ok {
					continue
				}
				pt, ok := fa.X.Type().Underlying().(*types.Pointer)
				if !ok {
					continue
				}
				key := fieldKey(pt.Elem(), fa.Field)
				if p.escaped[key] {
					continue
				}
				for _, r := range *fa.Referrers() {
					switch r := r.(type) {
					case *ssa.UnOp:
						if r.Op != token.MUL {
							p.escaped[key] = true
						}
					case *ssa.Store:
						if r.Val == ssa.Value(fa) {
							p.escaped[key] = true
						}
					case *ssa.FieldAddr, *ssa.IndexAddr, *ssa.DebugRef:
					default:
						p.escaped[key] = true
					}
				}
			}
		}
	}
}

func (p *Program) FieldEscapes(named types.Type, idx int) bool {
	return p.escaped[fieldKey(named, idx)]
}

var reMethod = regexp.MustCompile(`^\((\*?)([A-Za-z_][A-Za-z0-9_]*)\)\.([A-Za-z_][A-Za-z0-9_]*)((\$\d+)*)$`)
var rePlain = regexp.MustCompile(`^([A-Za-z_][A-Za-z0-9_]*)((\$\d+)*)$`)

// LookupFunc resolves a contract function name within a package.
func (p *Program) LookupFunc(pkgPath, name string) *ssa.Function {
	sp := p.Pkgs[pkgPath]
	if sp == nil {
		return nil
	}
	var base *ssa.Function
	var anon string
	if m := reMethod.FindStringSubmatch(name); m != nil {
		mem := sp.Members[m[2]]
		tm, ok := mem.(*ssa.Type)
		if !ok {
			return nil
		}
		var recv types.Type = tm.Type()
		if m[1] == "*" {
			recv = types.NewPointer(recv)
		}
		sel := p.Prog.MethodSets.MethodSet(recv).Lookup(sp.Pkg, m[3])
		if sel == nil {
			return nil
		}
		base = p.Prog.MethodValue(sel)
		anon = m[4]
	} else if m := rePlain.FindStringSubmatch(name); m != nil {
		base = sp.Func(m[1])
		anon = m[2]
	}
	if base == nil {
		return nil
	}
	for anon != "" {
		anon = anon[1:]
		j := strings.Index(anon, "$")
		numS := anon
		if j >= 0 {
			numS, anon = anon[:j], anon[j:]
		} else {
			anon = ""
		}
		var n int
		fmt.Sscanf(numS, "%d", &n)
		if n < 1 || n > len(base.AnonFuncs) {
			return nil
		}
		base = base.AnonFuncs[n-1]
	}
	return base
}

// ContractName gives the name under which a function's contract would be filed.
func ContractName(fn *ssa.Function) (pkg string, name string) {
	if fn.Pkg == nil && fn.Parent() == nil {
		if fn.Signature.Recv() == nil {
			return "", fn.Name()
		}
	}
	root := fn
	suffix := ""
	for root.Parent() != nil {
		par := root.Parent()
		for i, a := range par.AnonFuncs {
			if a == root {
				suffix = fmt.Sprintf("$%d", i+1) + suffix
			}
		}
		root = par
	}
	if root.Pkg != nil {
		pkg = root.Pkg.Pkg.Path()
	} else if root.Object() != nil && root.Object().Pkg() != nil {
		pkg = root.Object().Pkg().Path()
	}
	if recv := root.Signature.Recv(); recv != nil {
		t := recv.Type()
		star := ""
		if pt, ok := t.(*types.Pointer); ok {
			star = "*"
			t = pt.Elem()
		}
		tn := "?"
		if n, ok := t.(*types.Named); ok {
			tn = n.Obj().Name()
		}
		return pkg, "(" + star + tn + ")." + root.Name() + suffix
	}
	return pkg, root.Name() + suffix
}

func (p *Program) ContractFor(fn *ssa.Function) *FuncContract {
	pkg, name := ContractName(fn)
	if fc := p.CS.Funcs[pkg+"."+name]; fc != nil {
		return fc
	}
	return p.CS.Funcs["_shared."+pkg+"."+name]
}

// ---------------------------------------------------------------------------------------
// Inferred frames (mod sets)

type ModSet struct {
	All  bool
	Std  bool            // every heap map whose key does not mention a type of this module (writes by the standard library)
	Maps map[string]bool // heap map keys (see heapKey*)
}

// Has reports whether a write to heap key k is covered.
func (m *ModSet) Has(k string, p *Program) bool {
	return m.All || m.Maps[k] || (m.Std && !p.IsModuleKey(k))
}

func (m *ModSet) add(o *ModSet) bool {
	ch := false
	if o.All && !m.All {
		m.All = true
		ch = true
	}
	if o.Std && !m.Std {
		m.Std = true
		ch = true
	}
	for k := range o.Maps {
		if !m.Maps[k] {
			m.Maps[k] = true
			ch = true
		}
	}
	return ch
}

func (m *ModSet) Keys() []string {
	var ks []string
	for k := range m.Maps {
		ks = append(ks, k)
	}
	sort.Strings(ks)
	return ks
}

var pureNoBodyPkgs = map[string]bool{"math": true, "math/bits": true, "internal/bytealg": true, "strings": true,
	"unicode/utf8": true, "unicode/utf16": true, "unicode": true, "bytes": true, "strconv": true, "sort": true, "internal/cpu": true,
	"runtime": true, "internal/abi": true, "unsafe": true, "sync": true, "sync/atomic": true, "internal/race": true, "internal/stringslite": true,
	"internal/byteorder": true, "internal/goarch": true, "internal/runtime/atomic": true, "errors": true, "internal/reflectlite": true}

// ModSetOf computes (and caches) the set of heap maps a function may write, transitively.
func (p *Program) ModSetOf(fn *ssa.Function) *ModSet {
	return p.modSetOf(fn, false)
}

// RawModSetOf infers the frame of fn from its body, ignoring fn's own declared `modifies` clause.
func (p *Program) RawModSetOf(fn *ssa.Function) *ModSet {
	return p.modSetOf(fn, true)
}

func (p *Program) modSetOf(fn *ssa.Function, ignoreOwn bool) *ModSet {
	if ms, ok := p.modsets[fn]; ok && !ignoreOwn {
		return ms
	}
	// iterative fixpoint over the static call graph reachable from fn
	p.skipFresh = true
	defer func() { p.skipFresh = false }()
	work := []*ssa.Function{fn}
	seen := map[*ssa.Function]bool{fn: true}
	var order []*ssa.Function
	callees := map[*ssa.Function][]*ssa.Function{}
	local := map[*ssa.Function]*ModSet{}
	for len(work) > 0 {
		f := work[len(work)-1]
		work = work[:len(work)-1]
		order = append(order, f)
		ms := &ModSet{Maps: map[string]bool{}}
		local[f] = ms
		if done, ok := p.modsets[f]; ok {
			ms.add(done)
			continue
		}
		if f.Blocks == nil {
			pk := ""
			if f.Pkg != nil {
				pk = f.Pkg.Pkg.Path()
			} else if f.Object() != nil && f.Object().Pkg() != nil {
				pk = f.Object().Pkg().Path()
			}
			if !pureNoBodyPkgs[pk] {
				ms.All = true
				p.noteAll(f, "no body")
			}
			continue
		}
		if fc := p.ContractFor(f); fc != nil && fc.HasMods && !(ignoreOwn && f == fn) {
			ms.add(p.DeclaredMods(fc))
			continue
		}
		if fc := p.ContractFor(f); fc != nil && fc.Opts["pure"] != "" && !(ignoreOwn && f == fn) {
			continue // modelled as an uninterpreted function of its arguments: no frame
		}
		for _, b := range f.Blocks {
			for _, in := range b.Instrs {
				switch in := in.(type) {
				case *ssa.Store:
					p.storeKeys(in.Addr, ms)
				case *ssa.MapUpdate:
					ms.Maps[mapKey(in.Map.Type())+"!d"] = true
					ms.Maps[mapKey(in.Map.Type())+"!v"] = true
				case *ssa.Go:
					// concurrent interference is not modelled (listed assumption); not part of the sequential frame
				case *ssa.Send, *ssa.Select:
					// channel ops do not write modelled heap
				case ssa.CallInstruction:
					c := in.Common()
					if c.IsInvoke() {
						impls := p.implementations(c)
						if len(impls) == 0 {
							ms.All = true
							p.noteAll(f, "interface method call "+c.Method.Name()+" without known implementations at "+p.Fset.Position(in.Pos()).String())
							continue
						}
						p.UsedCHA = true
						for _, cf := range impls {
							if !seen[cf] {
								seen[cf] = true
								work = append(work, cf)
							}
							callees[f] = append(callees[f], cf)
						}
						continue
					}
					switch cv := c.Value.(type) {
					case *ssa.Builtin:
						switch cv.Name() {
						case "copy":
							if st, ok := c.Args[0].Type().Underlying().(*types.Slice); ok {
								p.typeKeys(st.Elem(), true, ms)
							}
						case "delete":
							ms.Maps[mapKey(c.Args[0].Type())+"!d"] = true
							ms.Maps[mapKey(c.Args[0].Type())+"!v"] = true
						case "clear":
							ms.All = true
							p.noteAll(f, "clear builtin")
						}
					case *ssa.Function:
						if cv.Pkg != nil && cv.Pkg.Pkg.Path() == "sort" && (cv.Name() == "Sort" || cv.Name() == "Stable") && len(c.Args) == 1 {
							// sort.Sort(x): only x's own Len/Less/Swap are called back
							if mi, ok := c.Args[0].(*ssa.MakeInterface); ok {
								mset := p.Prog.MethodSets.MethodSet(mi.X.Type())
								for _, mn := range []string{"Len", "Less", "Swap"} {
									if sel := mset.Lookup(nil, mn); sel != nil {
										if mf := p.Prog.MethodValue(sel); mf != nil {
											if !seen[mf] {
												seen[mf] = true
												work = append(work, mf)
											}
											callees[f] = append(callees[f], mf)
										}
									}
								}
								continue
							}
						}
						if !seen[cv] {
							seen[cv] = true
							work = append(work, cv)
						}
						callees[f] = append(callees[f], cv)
					case *ssa.MakeClosure:
						if cf, ok := cv.Fn.(*ssa.Function); ok {
							if !seen[cf] {
								seen[cf] = true
								work = append(work, cf)
							}
							callees[f] = append(callees[f], cf)
						} else {
							ms.All = true
							p.noteAll(f, "call of a closure value at "+p.Fset.Position(in.Pos()).String())
						}
					default:
						if p.assumedPureDynamic(c.Value) {
							continue
						}
						ms.All = true
						p.noteAll(f, "call through a function value at "+p.Fset.Position(in.Pos()).String())
					}
				}
			}
		}
	}
	// the standard library cannot write objects of this module's types except through callbacks it is
	// handed; a library function without function/interface parameters whose frame is unbounded is
	// summarised as "writes library-typed heap only" (Std)
	norm := func(f *ssa.Function) {
		if local[f].All && f.Blocks != nil && !p.inModule(f) && !takesCallbacks(f) {
			local[f].All = false
			local[f].Std = true
		}
	}
	for _, f := range order {
		norm(f)
	}
	for changed := true; changed; {
		changed = false
		for _, f := range order {
			before := *local[f]
			nb := len(local[f].Maps)
			for _, c := range callees[f] {
				local[f].add(local[c])
			}
			norm(f)
			if local[f].All != before.All || local[f].Std != before.Std || len(local[f].Maps) != nb {
				changed = true
			}
		}
	}
	if ignoreOwn {
		return local[fn]
	}
	for _, f := range order {
		p.modsets[f] = local[f]
	}
	return p.modsets[fn]
}

func mapKey(t types.Type) string { return "M|" + typeKey(t.Underlying()) }

// storeKeys adds the heap maps a store through addr may write.
// freshRoot reports whether an address is derived (by field/index selection only) from an allocation
// made in the same function: writes through it touch objects the caller could not observe before.
func freshRoot(addr ssa.Value) bool {
	return freshRootSeen(addr, map[ssa.Value]bool{})
}

func freshRootSeen(addr ssa.Value, seen map[ssa.Value]bool) bool {
	for {
		switch a := addr.(type) {
		case *ssa.Phi:
			if seen[a] {
				return true
			}
			seen[a] = true
			for _, e := range a.Edges {
				if c, ok := e.(*ssa.Const); ok && c.Value == nil {
					continue
				}
				if !freshRootSeen(e, seen) {
					return false
				}
			}
			return true
		case *ssa.FieldAddr:
			addr = a.X
		case *ssa.IndexAddr:
			if _, isSlice := a.X.Type().Underlying().(*types.Slice); isSlice {
				return freshSlice(a.X, map[ssa.Value]bool{})
			}
			addr = a.X
		case *ssa.Alloc:
			return true
		default:
			return false
		}
	}
}

// freshSlice: the slice's backing array was allocated in this function (make, append onto a fresh or
// nil slice, re-slicing of such a slice, or a phi of such values).
func freshSlice(v ssa.Value, seen map[ssa.Value]bool) bool {
	if seen[v] {
		return true
	}
	seen[v] = true
	switch a := v.(type) {
	case *ssa.MakeSlice:
		return true
	case *ssa.Const:
		return a.Value == nil
	case *ssa.Slice:
		if al, ok := a.X.(*ssa.Alloc); ok {
			_ = al
			return true
		}
		if _, isSlice := a.X.Type().Underlying().(*types.Slice); isSlice {
			return freshSlice(a.X, seen)
		}
		return false
	case *ssa.Phi:
		for _, e := range a.Edges {
			if !freshSlice(e, seen) {
				return false
			}
		}
		return true
	case *ssa.Call:
		if b, ok := a.Call.Value.(*ssa.Builtin); ok && b.Name() == "append" {
			return freshSlice(a.Call.Args[0], seen)
		}
	}
	return false
}

func (p *Program) storeKeys(addr ssa.Value, ms *ModSet) {
	if _, _, priv := privRoot(addr); priv {
		return // private local cell: invisible to callers
	}
	if p.skipFresh && freshRoot(addr) {
		return
	}
	pt, ok := addr.Type().Underlying().(*types.Pointer)
	if !ok {
		ms.All = true
		return
	}
	switch a := addr.(type) {
	case *ssa.FieldAddr:
		p.fieldChainKeys(a, ms)
		return
	case *ssa.IndexAddr:
		p.typeKeys(pt.Elem(), true, ms)
		return
	case *ssa.Alloc:
		p.typeKeys(pt.Elem(), false, ms)
		return
	case *ssa.Global:
		p.typeKeys(pt.Elem(), false, ms)
		return
	}
	// unknown provenance: both generic and element maps
	p.typeKeys(pt.Elem(), false, ms)
	p.typeKeys(pt.Elem(), true, ms)
}

func (p *Program) fieldKeys(named types.Type, idx int, ms *ModSet) {
	p.fieldKeysCtx(named, fmt.Sprint(idx), named, idx, ms)
}

// fieldKeysCtx adds the heap keys of field idx of struct type imm, which is reached from struct type root
// along index path `path` through struct-valued fields whose addresses do not escape.
func (p *Program) fieldKeysCtx(root types.Type, path string, imm types.Type, idx int, ms *ModSet) {
	st := imm.Underlying().(*types.Struct)
	ft := st.Field(idx).Type()
	if sub, isStruct := ft.Underlying().(*types.Struct); isStruct {
		for i := 0; i < sub.NumFields(); i++ {
			if p.FieldEscapes(imm, idx) {
				p.fieldKeysCtx(ft, fmt.Sprint(i), ft, i, ms)
			} else {
				p.fieldKeysCtx(root, fmt.Sprintf("%s.%d", path, i), ft, i, ms)
			}
		}
		return
	}
	if at, isArr := ft.Underlying().(*types.Array); isArr {
		p.typeKeys(at.Elem(), true, ms)
		return
	}
	if p.FieldEscapes(imm, idx) {
		ms.Maps["H|"+typeKey(ft)] = true
	} else {
		ms.Maps["F|"+typeKey(root)+"|"+path] = true
	}
}

// fieldChainKeys handles a store through a chain of FieldAddr instructions (outermost first).
func (p *Program) fieldChainKeys(a *ssa.FieldAddr, ms *ModSet) {
	var chain []*ssa.FieldAddr
	for cur := a; cur != nil; {
		chain = append([]*ssa.FieldAddr{cur}, chain...)
		next, ok := cur.X.(*ssa.FieldAddr)
		if !ok {
			break
		}
		cur = next
	}
	var root types.Type
	path := ""
	for k, fa := range chain {
		imm := fa.X.Type().Underlying().(*types.Pointer).Elem()
		if root == nil {
			root, path = imm, fmt.Sprint(fa.Field)
		} else {
			path = fmt.Sprintf("%s.%d", path, fa.Field)
		}
		if k == len(chain)-1 {
			p.fieldKeysCtx(root, path, imm, fa.Field, ms)
			return
		}
		ft := imm.Underlying().(*types.Struct).Field(fa.Field).Type()
		if _, isStruct := ft.Underlying().(*types.Struct); !isStruct || p.FieldEscapes(imm, fa.Field) {
			root = nil
		}
	}
}

func (p *Program) typeKeys(t types.Type, elem bool, ms *ModSet) {
	switch u := t.Underlying().(type) {
	case *types.Struct:
		for i := 0; i < u.NumFields(); i++ {
			p.fieldKeys(t, i, ms)
		}
	case *types.Array:
		p.typeKeys(u.Elem(), true, ms)
	default:
		if elem {
			ms.Maps["E|"+typeKey(t)] = true
		} else {
			ms.Maps["H|"+typeKey(t)] = true
		}
	}
}

// DeclaredMods resolves the entries of a `modifies` clause: "*", raw heap-map keys, or Type.field /
// pkg.Type.field names (all leaves below a struct-typed field are included).
func (p *Program) DeclaredMods(fc *FuncContract) *ModSet {
	ms := &ModSet{Maps: map[string]bool{}}
	for _, m := range fc.Mods {
		switch {
		case m == "*":
			ms.All = true
		case strings.Contains(m, "|"):
			ms.Maps[m] = true
		default:
			parts := strings.Split(m, ".")
			if len(parts) < 2 {
				panic(specError{"bad modifies entry " + m + " in contract of " + fc.Name})
			}
			field := parts[len(parts)-1]
			tname := parts[len(parts)-2]
			var scope *types.Scope
			if len(parts) == 3 {
				for path, sp := range p.Pkgs {
					if sp.Pkg.Name() == parts[0] && strings.HasPrefix(path, modPath) {
						scope = sp.Pkg.Scope()
					}
				}
			} else if sp := p.Pkgs[fc.Pkg]; sp != nil {
				scope = sp.Pkg.Scope()
			}
			if scope == nil {
				panic(specError{"cannot resolve package of modifies entry " + m})
			}
			tn, ok := scope.Lookup(tname).(*types.TypeName)
			if !ok {
				panic(specError{"cannot resolve type of modifies entry " + m})
			}
			st, ok := tn.Type().Underlying().(*types.Struct)
			if !ok {
				panic(specError{"modifies entry " + m + " is not a struct field"})
			}
			found := false
			for i := 0; i < st.NumFields(); i++ {
				if st.Field(i).Name() == field {
					p.fieldKeys(tn.Type(), i, ms)
					found = true
				}
			}
			if !found {
				panic(specError{"no field " + field + " in " + tname})
			}
		}
	}
	return ms
}

func (p *Program) inModule(f *ssa.Function) bool {
	pk := ""
	if f.Pkg != nil {
		pk = f.Pkg.Pkg.Path()
	} else if f.Object() != nil && f.Object().Pkg() != nil {
		pk = f.Object().Pkg().Path()
	} else if f.Parent() != nil {
		return p.inModule(f.Parent())
	}
	return strings.HasPrefix(pk, modPath)
}

// takesCallbacks: the function receives a function or interface value (other than error / empty-interface
// operands of formatting functions, which are only read) through which it could call back into the module.
func takesCallbacks(f *ssa.Function) bool {
	pk := ""
	if f.Pkg != nil {
		pk = f.Pkg.Pkg.Path()
	}
	if pk == "fmt" || pk == "strconv" || pk == "errors" || pk == "strings" || pk == "bytes" || pk == "unicode/utf8" {
		return false
	}
	for _, prm := range f.Params {
		switch u := prm.Type().Underlying().(type) {
		case *types.Signature:
			return true
		case *types.Interface:
			if u.NumMethods() > 0 {
				return true
			}
		case *types.Slice:
			if it, ok := u.Elem().Underlying().(*types.Interface); ok && it.NumMethods() > 0 {
				return true
			}
		}
	}
	return false
}

// IsModuleKey: the heap key mentions a type declared in this module.
func (p *Program) IsModuleKey(k string) bool {
	if p.modNames == nil {
		p.modNames = map[string]bool{}
		for path, sp := range p.Pkgs {
			if strings.HasPrefix(path, modPath) {
				p.modNames[sp.Pkg.Name()+"_"] = true
			}
		}
	}
	for n := range p.modNames {
		if strings.Contains(k, n) {
			return true
		}
	}
	return false
}

func (p *Program) noteAll(f *ssa.Function, why string) {
	if p.ownAll == nil {
		p.ownAll = map[*ssa.Function]bool{}
	}
	p.ownAll[f] = true
	if p.whyAll == nil {
		p.whyAll = map[*ssa.Function]string{}
	}
	if _, ok := p.whyAll[f]; !ok {
		p.whyAll[f] = f.String() + ": " + why
	}
}

// WhyAll explains why the inferred frame of fn is unbounded (first reason found in its call graph).
func (p *Program) WhyAll(fn *ssa.Function) string {
	seen := map[*ssa.Function]bool{}
	var walk func(f *ssa.Function) string
	walk = func(f *ssa.Function) string {
		if seen[f] {
			return ""
		}
		seen[f] = true
		if f.Blocks != nil && !p.inModule(f) && !takesCallbacks(f) {
			return "" // summarised as library-only writes
		}
		if w, ok := p.whyAll[f]; ok {
			return w
		}
		for _, b := range f.Blocks {
			for _, in := range b.Instrs {
				if ci, ok := in.(ssa.CallInstruction); ok {
					if callee := ci.Common().StaticCallee(); callee != nil {
						if w := walk(callee); w != "" {
							return w
						}
					}
				}
			}
		}
		if f.Blocks == nil {
			return f.String() + ": no body and not known to be pure"
		}
		return ""
	}
	return walk(fn)
}

// assumedPureDynamic: a call through a struct field named in a `//@ pure-dynamic Type.field` directive
// is assumed not to write the modelled heap (an assumption, echoed in evidence).
func (p *Program) assumedPureDynamic(v ssa.Value) bool {
	var st *types.Struct
	var idx int
	var named types.Type
	switch x := v.(type) {
	case *ssa.Field:
		named = x.X.Type()
		st, _ = named.Underlying().(*types.Struct)
		idx = x.Field
	case *ssa.UnOp:
		fa, ok := x.X.(*ssa.FieldAddr)
		if !ok {
			return false
		}
		named = fa.X.Type().Underlying().(*types.Pointer).Elem()
		st, _ = named.Underlying().(*types.Struct)
		idx = fa.Field
	default:
		return false
	}
	if st == nil {
		return false
	}
	tn := ""
	if n, ok := named.(*types.Named); ok {
		tn = n.Obj().Name()
	}
	key := tn + "." + st.Field(idx).Name()
	if p.CS == nil {
		return false
	}
	for _, d := range p.CS.Dirs {
		if d.Kind == "pure-dynamic" {
			for _, f := range strings.Fields(d.Text) {
				if f == key {
					p.UsedPureDynamic[key] = true
					return true
				}
			}
		}
	}
	return false
}

// WhyKey finds a store (position) in fn's static call graph that contributes heap key k to its inferred frame.
func (p *Program) WhyKey(fn *ssa.Function, k string) string {
	p.skipFresh = true
	defer func() { p.skipFresh = false }()
	seen := map[*ssa.Function]bool{}
	var walk func(f *ssa.Function) string
	walk = func(f *ssa.Function) string {
		if seen[f] || f.Blocks == nil {
			return ""
		}
		seen[f] = true
		if fc := p.ContractFor(f); fc != nil && fc.HasMods && f != fn {
			if p.DeclaredMods(fc).Maps[k] {
				return f.String() + " (declared frame)"
			}
			return ""
		}
		for _, b := range f.Blocks {
			for _, in := range b.Instrs {
				switch in := in.(type) {
				case *ssa.Store:
					ms := &ModSet{Maps: map[string]bool{}}
					p.storeKeys(in.Addr, ms)
					if ms.Maps[k] {
						return f.String() + " at " + p.Fset.Position(in.Pos()).String()
					}
				case ssa.CallInstruction:
					c := in.Common()
					if b, ok := c.Value.(*ssa.Builtin); ok && b.Name() == "copy" {
						ms := &ModSet{Maps: map[string]bool{}}
						if st, ok := c.Args[0].Type().Underlying().(*types.Slice); ok {
							p.typeKeys(st.Elem(), true, ms)
						}
						if ms.Maps[k] {
							return f.String() + " (copy) at " + p.Fset.Position(in.Pos()).String()
						}
					}
					if callee := c.StaticCallee(); callee != nil {
						if w := walk(callee); w != "" {
							return w
						}
					}
					if mc, ok := c.Value.(*ssa.MakeClosure); ok {
						if cf, ok := mc.Fn.(*ssa.Function); ok {
							if w := walk(cf); w != "" {
								return w
							}
						}
					}
				}
			}
		}
		return ""
	}
	return walk(fn)
}

// implementations resolves an interface method call by class-hierarchy analysis over the loaded packages.
func (p *Program) implementations(c *ssa.CallCommon) []*ssa.Function {
	it, ok := c.Value.Type().Underlying().(*types.Interface)
	if !ok {
		return nil
	}
	key := c.Value.Type().String() + "." + c.Method.Name()
	if r, ok := p.chaCache[key]; ok {
		return r
	}
	var out []*ssa.Function
	for _, sp := range p.Pkgs {
		for _, mem := range sp.Members {
			tm, ok := mem.(*ssa.Type)
			if !ok {
				continue
			}
			if _, isIface := tm.Type().Underlying().(*types.Interface); isIface {
				continue
			}
			for _, t := range []types.Type{tm.Type(), types.NewPointer(tm.Type())} {
				if !types.Implements(t, it) {
					continue
				}
				sel := p.Prog.MethodSets.MethodSet(t).Lookup(c.Method.Pkg(), c.Method.Name())
				if sel == nil {
					continue
				}
				if fn := p.Prog.MethodValue(sel); fn != nil {
					out = append(out, fn)
				}
				break
			}
		}
	}
	if p.chaCache == nil {
		p.chaCache = map[string][]*ssa.Function{}
	}
	p.chaCache[key] = out
	return out
}
