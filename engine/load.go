package main

import (
	"fmt"
	"go/token"
	"go/types"
	"os"
	"regexp"
	"sort"
	"strings"

	"golang.org/x/tools/go/packages"
	"golang.org/x/tools/go/ssa"
	"golang.org/x/tools/go/ssa/ssautil"
)

const modPath = "github.com/evanw/esbuild"

type Program struct {
	Repo     string
	Fset     *token.FileSet
	Prog     *ssa.Program
	Pkgs     map[string]*ssa.Package // by import path
	TPkgs    map[string]*packages.Package
	AllFuncs map[*ssa.Function]bool
	CS       *ContractSet
	escaped  map[string]bool // struct-field key -> address escapes
	modsets  map[*ssa.Function]*ModSet
	LoadSecs float64
}

func LoadProgram(repo string, patterns []string) (*Program, error) {
	cfg := &packages.Config{
		Mode:       packages.LoadAllSyntax,
		Dir:        repo,
		BuildFlags: []string{"-tags=verif"},
		Env:        append(os.Environ(), "GOFLAGS=-mod=mod", "GOPROXY=off", "GOSUMDB=off", "GOTOOLCHAIN=local"),
	}
	pkgs, err := packages.Load(cfg, patterns...)
	if err != nil {
		return nil, err
	}
	var errs []string
	packages.Visit(pkgs, nil, func(p *packages.Package) {
		for _, e := range p.Errors {
			errs = append(errs, e.Error())
		}
	})
	if len(errs) > 0 {
		return nil, fmt.Errorf("package load errors: %s", strings.Join(errs, "; "))
	}
	prog, _ := ssautil.AllPackages(pkgs, ssa.GlobalDebug|ssa.InstantiateGenerics)
	prog.Build()
	p := &Program{Repo: repo, Fset: prog.Fset, Prog: prog, Pkgs: map[string]*ssa.Package{}, TPkgs: map[string]*packages.Package{},
		escaped: map[string]bool{}, modsets: map[*ssa.Function]*ModSet{}}
	packages.Visit(pkgs, nil, func(tp *packages.Package) {
		p.TPkgs[tp.PkgPath] = tp
	})
	for _, sp := range prog.AllPackages() {
		p.Pkgs[sp.Pkg.Path()] = sp
	}
	p.AllFuncs = ssautil.AllFunctions(prog)
	p.computeEscapes()
	return p, nil
}

func fieldKey(named types.Type, idx int) string {
	return fmt.Sprintf("%s#%d", types.TypeString(named, func(p *types.Package) string { return p.Path() }), idx)
}

// computeEscapes marks struct fields whose address is used other than by an immediate
// load/store/field/index chain anywhere in the loaded program.
func (p *Program) computeEscapes() {
	for fn := range p.AllFuncs {
		for _, b := range fn.Blocks {
			for _, in := range b.Instrs {
				fa, ok := in.(*ssa.FieldAddr)
				if !ok {
					continue
				}
				pt, ok := fa.X.Type().Underlying().(*types.Pointer)
				if !ok {
					continue
				}
				key := fieldKey(pt.Elem(), fa.Field)
				if p.escaped[key] {
					continue
				}
				for _, r := range *fa.Referrers() {
					switch r := r.(type) {
					case *ssa.UnOp:
						if r.Op != token.MUL {
							p.escaped[key] = true
						}
					case *ssa.Store:
						if r.Val == ssa.Value(fa) {
							p.escaped[key] = true
						}
					case *ssa.FieldAddr, *ssa.IndexAddr, *ssa.DebugRef:
					default:
						p.escaped[key] = true
					}
				}
			}
		}
	}
}

func (p *Program) FieldEscapes(named types.Type, idx int) bool {
	return p.escaped[fieldKey(named, idx)]
}

var reMethod = regexp.MustCompile(`^\((\*?)([A-Za-z_][A-Za-z0-9_]*)\)\.([A-Za-z_][A-Za-z0-9_]*)((\$\d+)*)$`)
var rePlain = regexp.MustCompile(`^([A-Za-z_][A-Za-z0-9_]*)((\$\d+)*)$`)

// LookupFunc resolves a contract function name within a package.
func (p *Program) LookupFunc(pkgPath, name string) *ssa.Function {
	sp := p.Pkgs[pkgPath]
	if sp == nil {
		return nil
	}
	var base *ssa.Function
	var anon string
	if m := reMethod.FindStringSubmatch(name); m != nil {
		mem := sp.Members[m[2]]
		tm, ok := mem.(*ssa.Type)
		if !ok {
			return nil
		}
		var recv types.Type = tm.Type()
		if m[1] == "*" {
			recv = types.NewPointer(recv)
		}
		sel := p.Prog.MethodSets.MethodSet(recv).Lookup(sp.Pkg, m[3])
		if sel == nil {
			return nil
		}
		base = p.Prog.MethodValue(sel)
		anon = m[4]
	} else if m := rePlain.FindStringSubmatch(name); m != nil {
		base = sp.Func(m[1])
		anon = m[2]
	}
	if base == nil {
		return nil
	}
	for anon != "" {
		anon = anon[1:]
		j := strings.Index(anon, "$")
		numS := anon
		if j >= 0 {
			numS, anon = anon[:j], anon[j:]
		} else {
			anon = ""
		}
		var n int
		fmt.Sscanf(numS, "%d", &n)
		if n < 1 || n > len(base.AnonFuncs) {
			return nil
		}
		base = base.AnonFuncs[n-1]
	}
	return base
}

// ContractName gives the name under which a function's contract would be filed.
func ContractName(fn *ssa.Function) (pkg string, name string) {
	if fn.Pkg == nil && fn.Parent() == nil {
		if fn.Signature.Recv() == nil {
			return "", fn.Name()
		}
	}
	root := fn
	suffix := ""
	for root.Parent() != nil {
		par := root.Parent()
		for i, a := range par.AnonFuncs {
			if a == root {
				suffix = fmt.Sprintf("$%d", i+1) + suffix
			}
		}
		root = par
	}
	if root.Pkg != nil {
		pkg = root.Pkg.Pkg.Path()
	} else if root.Object() != nil && root.Object().Pkg() != nil {
		pkg = root.Object().Pkg().Path()
	}
	if recv := root.Signature.Recv(); recv != nil {
		t := recv.Type()
		star := ""
		if pt, ok := t.(*types.Pointer); ok {
			star = "*"
			t = pt.Elem()
		}
		tn := "?"
		if n, ok := t.(*types.Named); ok {
			tn = n.Obj().Name()
		}
		return pkg, "(" + star + tn + ")." + root.Name() + suffix
	}
	return pkg, root.Name() + suffix
}

func (p *Program) ContractFor(fn *ssa.Function) *FuncContract {
	pkg, name := ContractName(fn)
	if fc := p.CS.Funcs[pkg+"."+name]; fc != nil {
		return fc
	}
	return p.CS.Funcs["_shared."+pkg+"."+name]
}

// ---------------------------------------------------------------------------------------
// Inferred frames (mod sets)

type ModSet struct {
	All  bool
	Maps map[string]bool // heap map keys (see heapKey*)
}

func (m *ModSet) add(o *ModSet) bool {
	ch := false
	if o.All && !m.All {
		m.All = true
		ch = true
	}
	for k := range o.Maps {
		if !m.Maps[k] {
			m.Maps[k] = true
			ch = true
		}
	}
	return ch
}

func (m *ModSet) Keys() []string {
	var ks []string
	for k := range m.Maps {
		ks = append(ks, k)
	}
	sort.Strings(ks)
	return ks
}

var pureNoBodyPkgs = map[string]bool{"math": true, "math/bits": true, "internal/bytealg": true, "strings": true,
	"unicode/utf8": true, "unicode/utf16": true, "unicode": true, "bytes": true, "strconv": true, "sort": true, "internal/cpu": true,
	"runtime": true, "internal/abi": true, "unsafe": true, "sync": true, "sync/atomic": true, "internal/race": true, "internal/stringslite": true,
	"internal/byteorder": true, "internal/goarch": true, "internal/runtime/atomic": true, "errors": true, "internal/reflectlite": true}

// ModSetOf computes (and caches) the set of heap maps a function may write, transitively.
func (p *Program) ModSetOf(fn *ssa.Function) *ModSet {
	return p.modSetOf(fn, false)
}

// RawModSetOf infers the frame of fn from its body, ignoring fn's own declared `modifies` clause.
func (p *Program) RawModSetOf(fn *ssa.Function) *ModSet {
	return p.modSetOf(fn, true)
}

func (p *Program) modSetOf(fn *ssa.Function, ignoreOwn bool) *ModSet {
	if ms, ok := p.modsets[fn]; ok && !ignoreOwn {
		return ms
	}
	// iterative fixpoint over the static call graph reachable from fn
	work := []*ssa.Function{fn}
	seen := map[*ssa.Function]bool{fn: true}
	var order []*ssa.Function
	callees := map[*ssa.Function][]*ssa.Function{}
	local := map[*ssa.Function]*ModSet{}
	for len(work) > 0 {
		f := work[len(work)-1]
		work = work[:len(work)-1]
		order = append(order, f)
		ms := &ModSet{Maps: map[string]bool{}}
		local[f] = ms
		if done, ok := p.modsets[f]; ok {
			ms.add(done)
			continue
		}
		if f.Blocks == nil {
			pk := ""
			if f.Pkg != nil {
				pk = f.Pkg.Pkg.Path()
			} else if f.Object() != nil && f.Object().Pkg() != nil {
				pk = f.Object().Pkg().Path()
			}
			if !pureNoBodyPkgs[pk] {
				ms.All = true
			}
			continue
		}
		if fc := p.ContractFor(f); fc != nil && fc.HasMods && !(ignoreOwn && f == fn) {
			ms.add(p.DeclaredMods(fc))
			continue
		}
		for _, b := range f.Blocks {
			for _, in := range b.Instrs {
				switch in := in.(type) {
				case *ssa.Store:
					p.storeKeys(in.Addr, ms)
				case *ssa.MapUpdate:
					ms.Maps[mapKey(in.Map.Type())+"!d"] = true
					ms.Maps[mapKey(in.Map.Type())+"!v"] = true
				case *ssa.Go:
					ms.All = true
				case *ssa.Send, *ssa.Select:
					// channel ops do not write modelled heap
				case ssa.CallInstruction:
					c := in.Common()
					if c.IsInvoke() {
						ms.All = true
						continue
					}
					switch cv := c.Value.(type) {
					case *ssa.Builtin:
						switch cv.Name() {
						case "copy":
							if st, ok := c.Args[0].Type().Underlying().(*types.Slice); ok {
								p.typeKeys(st.Elem(), true, ms)
							}
						case "delete":
							ms.Maps[mapKey(c.Args[0].Type())+"!d"] = true
							ms.Maps[mapKey(c.Args[0].Type())+"!v"] = true
						case "clear":
							ms.All = true
						}
					case *ssa.Function:
						if !seen[cv] {
							seen[cv] = true
							work = append(work, cv)
						}
						callees[f] = append(callees[f], cv)
					case *ssa.MakeClosure:
						if cf, ok := cv.Fn.(*ssa.Function); ok {
							if !seen[cf] {
								seen[cf] = true
								work = append(work, cf)
							}
							callees[f] = append(callees[f], cf)
						} else {
							ms.All = true
						}
					default:
						ms.All = true
					}
				}
			}
		}
	}
	for changed := true; changed; {
		changed = false
		for _, f := range order {
			for _, c := range callees[f] {
				if local[f].add(local[c]) {
					changed = true
				}
			}
		}
	}
	if ignoreOwn {
		return local[fn]
	}
	for _, f := range order {
		p.modsets[f] = local[f]
	}
	return p.modsets[fn]
}

func mapKey(t types.Type) string { return "M|" + typeKey(t.Underlying()) }

// storeKeys adds the heap maps a store through addr may write.
func (p *Program) storeKeys(addr ssa.Value, ms *ModSet) {
	if _, _, priv := privRoot(addr); priv {
		return // private local cell: invisible to callers
	}
	pt, ok := addr.Type().Underlying().(*types.Pointer)
	if !ok {
		ms.All = true
		return
	}
	switch a := addr.(type) {
	case *ssa.FieldAddr:
		spt := a.X.Type().Underlying().(*types.Pointer)
		p.fieldKeys(spt.Elem(), a.Field, ms)
		return
	case *ssa.IndexAddr:
		p.typeKeys(pt.Elem(), true, ms)
		return
	case *ssa.Alloc:
		p.typeKeys(pt.Elem(), false, ms)
		return
	case *ssa.Global:
		p.typeKeys(pt.Elem(), false, ms)
		return
	}
	// unknown provenance: both generic and element maps
	p.typeKeys(pt.Elem(), false, ms)
	p.typeKeys(pt.Elem(), true, ms)
}

func (p *Program) fieldKeys(named types.Type, idx int, ms *ModSet) {
	st := named.Underlying().(*types.Struct)
	ft := st.Field(idx).Type()
	if _, isStruct := ft.Underlying().(*types.Struct); isStruct {
		sub := ft.Underlying().(*types.Struct)
		for i := 0; i < sub.NumFields(); i++ {
			p.fieldKeys(ft, i, ms)
		}
		return
	}
	if at, isArr := ft.Underlying().(*types.Array); isArr {
		p.typeKeys(at.Elem(), true, ms)
		return
	}
	if p.FieldEscapes(named, idx) {
		ms.Maps["H|"+typeKey(ft)] = true
	} else {
		ms.Maps["F|"+typeKey(named)+"|"+fmt.Sprint(idx)] = true
	}
}

func (p *Program) typeKeys(t types.Type, elem bool, ms *ModSet) {
	switch u := t.Underlying().(type) {
	case *types.Struct:
		for i := 0; i < u.NumFields(); i++ {
			p.fieldKeys(t, i, ms)
		}
	case *types.Array:
		p.typeKeys(u.Elem(), true, ms)
	default:
		if elem {
			ms.Maps["E|"+typeKey(t)] = true
		} else {
			ms.Maps["H|"+typeKey(t)] = true
		}
	}
}

// DeclaredMods resolves the entries of a `modifies` clause: "*", raw heap-map keys, or Type.field /
// pkg.Type.field names (all leaves below a struct-typed field are included).
func (p *Program) DeclaredMods(fc *FuncContract) *ModSet {
	ms := &ModSet{Maps: map[string]bool{}}
	for _, m := range fc.Mods {
		switch {
		case m == "*":
			ms.All = true
		case strings.Contains(m, "|"):
			ms.Maps[m] = true
		default:
			parts := strings.Split(m, ".")
			if len(parts) < 2 {
				panic(specError{"bad modifies entry " + m + " in contract of " + fc.Name})
			}
			field := parts[len(parts)-1]
			tname := parts[len(parts)-2]
			var scope *types.Scope
			if len(parts) == 3 {
				for path, sp := range p.Pkgs {
					if sp.Pkg.Name() == parts[0] && strings.HasPrefix(path, modPath) {
						scope = sp.Pkg.Scope()
					}
				}
			} else if sp := p.Pkgs[fc.Pkg]; sp != nil {
				scope = sp.Pkg.Scope()
			}
			if scope == nil {
				panic(specError{"cannot resolve package of modifies entry " + m})
			}
			tn, ok := scope.Lookup(tname).(*types.TypeName)
			if !ok {
				panic(specError{"cannot resolve type of modifies entry " + m})
			}
			st, ok := tn.Type().Underlying().(*types.Struct)
			if !ok {
				panic(specError{"modifies entry " + m + " is not a struct field"})
			}
			found := false
			for i := 0; i < st.NumFields(); i++ {
				if st.Field(i).Name() == field {
					p.fieldKeys(tn.Type(), i, ms)
					found = true
				}
			}
			if !found {
				panic(specError{"no field " + field + " in " + tname})
			}
		}
	}
	return ms
}
