package main

// Counterexample extraction and replay against the real code.

import (
	"encoding/json"
	"fmt"
	"math"
	"os"
	"os/exec"
	"path/filepath"
	"regexp"
	"strconv"
	"strings"
)

// parseGetValue parses the `((term value) ...)` answer of a get-value command for n terms.
func parseGetValue(out string, n int) []string {
	i := strings.Index(out, "((")
	if i < 0 {
		return nil
	}
	s := out[i+1:]
	var vals []string
	for len(vals) < n {
		// s starts at "(" of a pair
		j := strings.Index(s, "(")
		if j < 0 {
			break
		}
		s = s[j:]
		end := matchParen(s, 0)
		if end < 0 {
			break
		}
		pair := s[1:end]
		// split the pair into term and value: the value is the last balanced item
		v := lastItem(pair)
		vals = append(vals, v)
		s = s[end+1:]
	}
	return vals
}

func matchParen(s string, start int) int {
	d := 0
	for i := start; i < len(s); i++ {
		switch s[i] {
		case '(':
			d++
		case ')':
			d--
			if d == 0 {
				return i
			}
		}
	}
	return -1
}

func lastItem(s string) string {
	s = strings.TrimSpace(s)
	if strings.HasSuffix(s, ")") {
		d := 0
		for i := len(s) - 1; i >= 0; i-- {
			switch s[i] {
			case ')':
				d++
			case '(':
				d--
				if d == 0 {
					return s[i:]
				}
			}
		}
	}
	if i := strings.LastIndexAny(s, " \t\n"); i >= 0 {
		return s[i+1:]
	}
	return s
}

var reFP = regexp.MustCompile(`^\(fp #b([01]) #b([01]+) #b([01]+)\)$`)
var reFPx = regexp.MustCompile(`^\(fp #b([01]) #x([0-9a-fA-F]+) #x([0-9a-fA-F]+)\)$`)

// goLiteral converts an SMT value to a Go expression.
func goLiteral(v string) string {
	v = strings.TrimSpace(v)
	switch {
	case v == "true" || v == "false":
		return v
	case strings.HasPrefix(v, "#x"):
		return "0x" + v[2:]
	case strings.HasPrefix(v, "#b"):
		n, _ := strconv.ParseUint(v[2:], 2, 64)
		return fmt.Sprintf("0x%x", n)
	case strings.HasPrefix(v, "(_ bv"):
		f := strings.Fields(strings.Trim(v, "()"))
		return strings.TrimPrefix(f[1], "bv")
	case strings.HasPrefix(v, "(_ NaN"):
		return "math.NaN()"
	case strings.HasPrefix(v, "(_ +oo"):
		return "math.Inf(1)"
	case strings.HasPrefix(v, "(_ -oo"):
		return "math.Inf(-1)"
	case strings.HasPrefix(v, "(_ +zero"):
		return "0.0"
	case strings.HasPrefix(v, "(_ -zero"):
		return "math.Copysign(0, -1)"
	case strings.HasPrefix(v, "(- "):
		return "-" + strings.TrimSpace(strings.TrimSuffix(v[3:], ")"))
	}
	if strings.HasPrefix(v, "(fp ") {
		parts := strings.Fields(strings.Trim(v, "()"))
		if len(parts) == 4 {
			bin := ""
			for _, p := range parts[1:] {
				if strings.HasPrefix(p, "#b") {
					bin += p[2:]
				} else if strings.HasPrefix(p, "#x") {
					for _, c := range p[2:] {
						n, _ := strconv.ParseUint(string(c), 16, 8)
						bin += fmt.Sprintf("%04b", n)
					}
				}
			}
			if len(bin) == 64 {
				bits, _ := strconv.ParseUint(bin, 2, 64)
				f := math.Float64frombits(bits)
				return fmt.Sprintf("math.Float64frombits(0x%016x) /* %v */", bits, f)
			}
		}
	}
	return v
}

// replayTemplate instantiates /verif/replay_templates/<name>.go.tmpl with the witness values and runs
// it as an in-package test through `go test -overlay` (nothing is written into the repository).
func replayTemplate(repo, name string, pkgDir string, vals map[string]string) (string, bool) {
	tpath := filepath.Join(verifRoot, "replay_templates", name+".go.tmpl")
	data, err := os.ReadFile(tpath)
	if err != nil {
		return "no replay template " + tpath, false
	}
	src := string(data)
	for k, v := range vals {
		src = strings.ReplaceAll(src, "{{"+k+"}}", goLiteral(v))
	}
	if i := strings.Index(src, "{{"); i >= 0 {
		return "replay template has unbound placeholder near: " + truncate(src[i:], 40), false
	}
	tmp, err := os.MkdirTemp("", "govc-replay")
	if err != nil {
		return err.Error(), false
	}
	defer os.RemoveAll(tmp)
	tf := filepath.Join(tmp, "zz_govc_replay_test.go")
	os.WriteFile(tf, []byte(src), 0o644)
	ov := map[string]map[string]string{"Replace": {filepath.Join(repo, pkgDir, "zz_govc_replay_test.go"): tf}}
	ovData, _ := json.Marshal(ov)
	ovf := filepath.Join(tmp, "overlay.json")
	os.WriteFile(ovf, ovData, 0o644)
	cmd := exec.Command("go", "test", "-overlay", ovf, "-vet=off", "-count=1", "-timeout", "60s", "-v", "-run", "TestGovcReplay", "./"+pkgDir)
	cmd.Dir = repo
	cmd.Env = append(os.Environ(), "GOFLAGS=-mod=mod", "GOPROXY=off", "GOSUMDB=off", "GOTOOLCHAIN=local")
	out, _ := cmd.CombinedOutput()
	o := string(out)
	return "replay source:\n" + src + "\noutput:\n" + truncate(o, 3000), strings.Contains(o, "REPLAY-CONFIRMED")
}
