package main

// Spec expression language: Go expression syntax plus
//   forall x, y T :: e      exists x T :: e      a ==> b      a <==> b      c ? a : b
//   old(e)   result   len(e)  cap(e)   spec-function calls   fp.* / math.* intrinsics

import (
	"fmt"
	"strings"
)

type Expr interface{}

type EIdent struct{ Name string }
type ELit struct {
	Kind string // int float string char bool nil
	Val  string
}
type EUnary struct {
	Op string
	X  Expr
}
type EBinary struct {
	Op   string
	X, Y Expr
}
type ECall struct {
	Fun  Expr
	Args []Expr
}
type EIndex struct{ X, I Expr }
type ESlice struct{ X, Lo, Hi Expr }
type ESel struct {
	X   Expr
	Sel string
}
type QVar struct {
	Name string
	Type string
}
type EQuant struct {
	Forall bool
	Vars   []QVar
	Body   Expr
}
type ECond struct{ C, A, B Expr }

// EType is a parenthesised/type-looking conversion target such as []byte or *T
type EType struct{ Text string }

type tok struct {
	k string // id num str chr op eof
	s string
}

type lexer struct {
	src  string
	pos  int
	toks []tok
}

var ops3 = []string{"<==>", "==>", "&^", "<<", ">>", "&&", "||", "==", "!=", "<=", ">=", "::"}

func lexAll(src string) ([]tok, error) {
	var out []tok
	i := 0
	for i < len(src) {
		c := src[i]
		if c == ' ' || c == '\t' || c == '\n' || c == '\r' {
			i++
			continue
		}
		if c == '\\' { // \fresh \typeof etc
			j := i + 1
			for j < len(src) && isIdentChar(src[j]) {
				j++
			}
			out = append(out, tok{"id", src[i:j]})
			i = j
			continue
		}
		if isIdentStart(c) {
			j := i + 1
			for j < len(src) && isIdentChar(src[j]) {
				j++
			}
			out = append(out, tok{"id", src[i:j]})
			i = j
			continue
		}
		if c >= '0' && c <= '9' {
			j := i + 1
			if c == '0' && j < len(src) && (src[j] == 'x' || src[j] == 'X') {
				j++
				for j < len(src) && (isHex(src[j]) || src[j] == '_' || src[j] == '.' || src[j] == 'p' || ((src[j] == '+' || src[j] == '-') && (src[j-1] == 'p'))) {
					j++
				}
			} else {
				for j < len(src) && ((src[j] >= '0' && src[j] <= '9') || src[j] == '_' || src[j] == '.' || src[j] == 'e' || ((src[j] == '+' || src[j] == '-') && (src[j-1] == 'e'))) {
					j++
				}
			}
			out = append(out, tok{"num", strings.ReplaceAll(src[i:j], "_", "")})
			i = j
			continue
		}
		if c == '"' {
			j := i + 1
			for j < len(src) && src[j] != '"' {
				if src[j] == '\\' {
					j++
				}
				j++
			}
			if j >= len(src) {
				return nil, fmt.Errorf("unterminated string in %q", src)
			}
			out = append(out, tok{"str", src[i : j+1]})
			i = j + 1
			continue
		}
		if c == '\'' {
			j := i + 1
			for j < len(src) && src[j] != '\'' {
				if src[j] == '\\' {
					j++
				}
				j++
			}
			if j >= len(src) {
				return nil, fmt.Errorf("unterminated char in %q", src)
			}
			out = append(out, tok{"chr", src[i : j+1]})
			i = j + 1
			continue
		}
		matched := false
		for _, o := range ops3 {
			if strings.HasPrefix(src[i:], o) {
				out = append(out, tok{"op", o})
				i += len(o)
				matched = true
				break
			}
		}
		if matched {
			continue
		}
		if strings.ContainsRune("+-*/%&|^!<>()[]{},:?.=", rune(c)) {
			out = append(out, tok{"op", string(c)})
			i++
			continue
		}
		return nil, fmt.Errorf("bad character %q in %q", c, src)
	}
	out = append(out, tok{"eof", ""})
	return out, nil
}

func isIdentStart(c byte) bool {
	return c == '_' || (c >= 'a' && c <= 'z') || (c >= 'A' && c <= 'Z')
}
func isIdentChar(c byte) bool { return isIdentStart(c) || (c >= '0' && c <= '9') }
func isHex(c byte) bool {
	return (c >= '0' && c <= '9') || (c >= 'a' && c <= 'f') || (c >= 'A' && c <= 'F')
}

type parser struct {
	toks []tok
	p    int
	src  string
}

func ParseExpr(src string) (e Expr, err error) {
	toks, err := lexAll(src)
	if err != nil {
		return nil, err
	}
	ps := &parser{toks: toks, src: src}
	defer func() {
		if r := recover(); r != nil {
			if pe, ok := r.(parseErr); ok {
				err = fmt.Errorf("%s (in %q)", string(pe), src)
				return
			}
			panic(r)
		}
	}()
	e = ps.parseTop()
	if ps.peek().k != "eof" {
		ps.fail("unexpected token %q", ps.peek().s)
	}
	return e, nil
}

type parseErr string

func (ps *parser) fail(f string, a ...interface{}) { panic(parseErr(fmt.Sprintf(f, a...))) }
func (ps *parser) peek() tok                       { return ps.toks[ps.p] }
func (ps *parser) next() tok                       { t := ps.toks[ps.p]; ps.p++; return t }
func (ps *parser) isOp(s string) bool              { t := ps.peek(); return t.k == "op" && t.s == s }
func (ps *parser) accept(s string) bool {
	if ps.isOp(s) {
		ps.p++
		return true
	}
	return false
}
func (ps *parser) expect(s string) {
	if !ps.accept(s) {
		ps.fail("expected %q, found %q", s, ps.peek().s)
	}
}

func (ps *parser) parseTop() Expr { return ps.parseIff() }

func (ps *parser) parseIff() Expr {
	x := ps.parseImpl()
	for ps.accept("<==>") {
		y := ps.parseImpl()
		x = &EBinary{"<==>", x, y}
	}
	return x
}

func (ps *parser) parseImpl() Expr {
	x := ps.parseCond()
	if ps.accept("==>") {
		y := ps.parseImpl()
		return &EBinary{"==>", x, y}
	}
	return x
}

func (ps *parser) parseCond() Expr {
	c := ps.parseBin(1)
	if ps.accept("?") {
		a := ps.parseCond()
		ps.expect(":")
		b := ps.parseCond()
		return &ECond{c, a, b}
	}
	return c
}

func binPrec(op string) int {
	switch op {
	case "||":
		return 1
	case "&&":
		return 2
	case "==", "!=", "<", "<=", ">", ">=":
		return 3
	case "+", "-", "|", "^":
		return 4
	case "*", "/", "%", "<<", ">>", "&", "&^":
		return 5
	}
	return 0
}

func (ps *parser) parseBin(min int) Expr {
	x := ps.parseUnary()
	for {
		t := ps.peek()
		if t.k != "op" {
			return x
		}
		pr := binPrec(t.s)
		if pr == 0 || pr < min {
			return x
		}
		ps.next()
		y := ps.parseBin(pr + 1)
		x = &EBinary{t.s, x, y}
	}
}

func (ps *parser) parseUnary() Expr {
	t := ps.peek()
	if t.k == "op" {
		switch t.s {
		case "!", "-", "^", "+":
			ps.next()
			return &EUnary{t.s, ps.parseUnary()}
		case "*":
			// pointer type conversion like *T(x) is not supported; deref
			ps.next()
			return &EUnary{"*", ps.parseUnary()}
		case "&":
			ps.next()
			return &EUnary{"&", ps.parseUnary()}
		}
	}
	if t.k == "id" && (t.s == "forall" || t.s == "exists") {
		return ps.parseQuant()
	}
	return ps.parsePostfix(ps.parsePrimary())
}

func (ps *parser) parseQuant() Expr {
	q := &EQuant{Forall: ps.next().s == "forall"}
	for {
		var names []string
		for {
			t := ps.next()
			if t.k != "id" {
				ps.fail("expected quantified variable name, found %q", t.s)
			}
			names = append(names, t.s)
			if ps.isOp(",") {
				// lookahead: "i, j int" vs "i int, j int"
				ps.next()
				continue
			}
			break
		}
		// type tokens until "," at depth 0 or "::"
		var ty []string
		depth := 0
		for {
			t := ps.peek()
			if t.k == "eof" {
				ps.fail("quantifier without ::")
			}
			if depth == 0 && t.k == "op" && (t.s == "::" || t.s == ",") {
				break
			}
			if t.k == "op" && (t.s == "[" || t.s == "(") {
				depth++
			}
			if t.k == "op" && (t.s == "]" || t.s == ")") {
				depth--
			}
			ty = append(ty, t.s)
			ps.next()
		}
		tys := strings.Join(ty, "")
		if tys == "" {
			tys = "int"
		}
		for _, n := range names {
			q.Vars = append(q.Vars, QVar{n, tys})
		}
		if ps.accept(",") {
			continue
		}
		ps.expect("::")
		break
	}
	q.Body = ps.parseTop()
	return q
}

func (ps *parser) parsePrimary() Expr {
	t := ps.next()
	switch t.k {
	case "num":
		if strings.ContainsAny(t.s, ".pe") && !strings.HasPrefix(t.s, "0x") || (strings.HasPrefix(t.s, "0x") && strings.ContainsAny(t.s, ".p")) {
			return &ELit{"float", t.s}
		}
		return &ELit{"int", t.s}
	case "str":
		return &ELit{"string", t.s}
	case "chr":
		return &ELit{"char", t.s}
	case "id":
		switch t.s {
		case "true", "false":
			return &ELit{"bool", t.s}
		case "nil":
			return &ELit{"nil", "nil"}
		}
		return &EIdent{t.s}
	case "op":
		if t.s == "(" {
			e := ps.parseTop()
			ps.expect(")")
			return e
		}
		if t.s == "[" { // slice type conversion: []byte(x)
			ps.expect("]")
			id := ps.next()
			if id.k != "id" {
				ps.fail("expected element type after []")
			}
			name := id.s
			for ps.accept(".") {
				name += "." + ps.next().s
			}
			return &EType{"[]" + name}
		}
	}
	ps.fail("unexpected token %q", t.s)
	return nil
}

func (ps *parser) parsePostfix(x Expr) Expr {
	for {
		switch {
		case ps.accept("("):
			var args []Expr
			if !ps.isOp(")") {
				for {
					args = append(args, ps.parseTop())
					if !ps.accept(",") {
						break
					}
				}
			}
			ps.expect(")")
			x = &ECall{x, args}
		case ps.accept("["):
			var lo, hi Expr
			if !ps.isOp(":") {
				lo = ps.parseTop()
			}
			if ps.accept(":") {
				if !ps.isOp("]") {
					hi = ps.parseTop()
				}
				ps.expect("]")
				x = &ESlice{x, lo, hi}
			} else {
				ps.expect("]")
				x = &EIndex{x, lo}
			}
		case ps.accept("."):
			t := ps.next()
			if t.k == "op" && t.s == "(" { // x.(T) type test value: x.(T)
				var ty []string
				depth := 1
				for {
					u := ps.next()
					if u.k == "eof" {
						ps.fail("unterminated .(")
					}
					if u.k == "op" && u.s == "(" {
						depth++
					}
					if u.k == "op" && u.s == ")" {
						depth--
						if depth == 0 {
							break
						}
					}
					ty = append(ty, u.s)
				}
				x = &ECall{&EIdent{"\\as"}, []Expr{x, &EType{strings.Join(ty, "")}}}
				continue
			}
			if t.k != "id" {
				ps.fail("expected selector, found %q", t.s)
			}
			x = &ESel{x, t.s}
		default:
			return x
		}
	}
}

func exprString(e Expr) string {
	switch e := e.(type) {
	case *EIdent:
		return e.Name
	case *ELit:
		return e.Val
	case *EUnary:
		return e.Op + exprString(e.X)
	case *EBinary:
		return "(" + exprString(e.X) + " " + e.Op + " " + exprString(e.Y) + ")"
	case *ECall:
		var a []string
		for _, x := range e.Args {
			a = append(a, exprString(x))
		}
		return exprString(e.Fun) + "(" + strings.Join(a, ", ") + ")"
	case *EIndex:
		return exprString(e.X) + "[" + exprString(e.I) + "]"
	case *ESlice:
		lo, hi := "", ""
		if e.Lo != nil {
			lo = exprString(e.Lo)
		}
		if e.Hi != nil {
			hi = exprString(e.Hi)
		}
		return exprString(e.X) + "[" + lo + ":" + hi + "]"
	case *ESel:
		return exprString(e.X) + "." + e.Sel
	case *EQuant:
		s := "exists "
		if e.Forall {
			s = "forall "
		}
		for i, v := range e.Vars {
			if i > 0 {
				s += ", "
			}
			s += v.Name + " " + v.Type
		}
		return "(" + s + " :: " + exprString(e.Body) + ")"
	case *ECond:
		return "(" + exprString(e.C) + " ? " + exprString(e.A) + " : " + exprString(e.B) + ")"
	case *EType:
		return e.Text
	}
	return "?"
}
