package main

import (
	"fmt"
	"go/token"
	"go/types"
	"strconv"
	"strings"

	"golang.org/x/tools/go/ssa"
)

func (e *Env) call(x *ECall) Val {
	g := e.g
	// conversions to slice types etc.
	if et, ok := x.Fun.(*EType); ok {
		t := e.resolveType(et.Text)
		v := e.tr(x.Args[0])
		return g.convert(v, t, nil)
	}
	name := ""
	switch fn := x.Fun.(type) {
	case *EIdent:
		name = fn.Name
	case *ESel:
		if id, ok := fn.X.(*EIdent); ok {
			name = id.Name + "." + fn.Sel
			if _, bound := e.bind[id.Name]; bound || e.isLocal(id.Name) {
				return e.methodCall(fn, x)
			}
		} else {
			return e.methodCall(fn, x)
		}
	}
	if name == "" {
		e.fail("unsupported call target %s", exprString(x.Fun))
	}
	arg := func(i int) Val {
		if i >= len(x.Args) {
			e.fail("%s: missing argument %d", name, i)
		}
		return e.tr(x.Args[i])
	}
	switch name {
	case "old":
		c := *e
		if !e.inOld {
			c.nowHeap = e.heap
		}
		c.heap = e.old
		c.inOld = true
		return c.tr(x.Args[0])
	case "now":
		// inside old(...): evaluate the argument in the current (post) state, e.g. old(root(now(q.Link)))
		if !e.inOld || e.nowHeap == nil {
			return e.tr(x.Args[0])
		}
		c := *e
		c.heap = e.nowHeap
		c.inOld = false
		return c.tr(x.Args[0])
	case "len", "cap":
		v := arg(0)
		if v.GT == nil {
			e.fail("len of a spec value without Go type")
		}
		switch u := v.GT.Underlying().(type) {
		case *types.Slice:
			if name == "cap" {
				return Val{S: app("s_cap", v.S), Sort: g.idxSort(), GT: tInt}
			}
			return Val{S: app("s_len", v.S), Sort: g.idxSort(), GT: tInt}
		case *types.Basic:
			return Val{S: app("gstr.len", v.S), Sort: g.idxSort(), GT: tInt}
		case *types.Array:
			return Val{S: g.idxLit(u.Len()), Sort: g.idxSort(), GT: tInt}
		case *types.Map:
			dk, _ := g.mapKeys(u)
			g.declFun("map.len", []string{"Ptr", g.heapMapSort(dk)}, g.idxSort())
			return Val{S: app("map.len", v.S, e.heapGet(dk)), Sort: g.idxSort(), GT: tInt}
		}
		e.fail("len of unsupported type %s", v.GT)
	case "inDom":
		m := arg(0)
		mt, ok := m.GT.Underlying().(*types.Map)
		if !ok {
			e.fail("inDom on a non-map")
		}
		k := e.concretize(arg(1), mt.Key())
		dk, _ := g.mapKeys(mt)
		return g.boolVal(and(not(eq(m.S, "nilptr")), app("select", app("select", e.heapGet(dk), m.S), k.S)))
	case "is":
		v := arg(0)
		t := e.resolveType(typeText(x.Args[1]))
		return g.boolVal(g.tagTest(v.S, t))
	case "\\as":
		v := arg(0)
		t := e.resolveType(typeText(x.Args[1]))
		if pointerShaped(t) {
			return Val{S: app("i_val", v.S), Sort: "Ptr", GT: t}
		}
		return g.loadAt(&Place{Kind: 3, Ptr: app("i_val", v.S)}, t, e.loadHeap())
	case "same":
		a, b := e.unify(arg(0), arg(1))
		return g.boolVal(eq(a.S, b.S))
	case "proj":
		// proj(k, F(args)): the k-th result of a multi-result (pure / heappure) function used in a specification
		kv := arg(0)
		if kv.Big == nil {
			e.fail("proj expects a constant index")
		}
		t := e.tr(x.Args[1])
		if t.Sort != "Tuple" || int(kv.Big.Int64()) >= len(t.Tuple) {
			e.fail("proj: the second argument is not a call with that many results")
		}
		return t.Tuple[kv.Big.Int64()]
	case "entry":
		// entry(p): the value parameter p had when the function was entered (in loop invariants and site clauses a
		// parameter name denotes its current value)
		id, ok := x.Args[0].(*EIdent)
		if !ok || e.f == nil {
			e.fail("entry(...) expects a parameter name")
		}
		for i, p := range e.f.fn.Params {
			if p.Name() == id.Name && i < len(e.f.args) {
				return e.f.args[i]
			}
		}
		e.fail("entry(%s): no such parameter", id.Name)
	case "atentry":
		// atentry(x), in a loop invariant: the value the loop variable x had when this loop was entered (x itself
		// denotes its value at the top of the current iteration). For an inner loop this is the value computed by the
		// enclosing iteration just before, so "i >= atentry(i)" says the inner loop never moves i backwards.
		id, ok := x.Args[0].(*EIdent)
		if !ok || e.f == nil || e.at == nil {
			e.fail("atentry(...) expects the name of a loop variable, in a loop invariant")
		}
		lp := e.f.loopAt[e.at]
		if lp == nil || lp.Header != e.at {
			e.fail("atentry(%s) used outside a loop invariant", id.Name)
		}
		for _, in := range lp.Header.Instrs {
			phi, ok := in.(*ssa.Phi)
			if !ok {
				break
			}
			if phi.Comment == id.Name {
				if v, ok := lp.entryVals[phi]; ok {
					return v
				}
			}
		}
		e.fail("atentry(%s): no loop variable of that name at this loop", id.Name)
	case "sameArray":
		// two slices are views of the same backing array (they may alias)
		a, b := arg(0), arg(1)
		if a.Sort != "Slice" || b.Sort != "Slice" {
			e.fail("sameArray expects two slices")
		}
		return g.boolVal(eq(app("s_arr", a.S), app("s_arr", b.S)))
	case "fresh":
		v := arg(0)
		p := v.S
		if v.Sort == "Slice" {
			p = app("s_arr", v.S)
		}
		return g.boolVal(app(">", app("obj", p), e.old.get("$alloc")))
	case "ite":
		c := e.trBool(x.Args[0])
		a, b := e.unify(arg(1), arg(2))
		return Val{S: ite(c, a.S, b.S), Sort: a.Sort, GT: a.GT}
	case "seq":
		// the backing array of a leaf-typed slice as a mathematical array (indexed from s_off)
		v := arg(0)
		st, ok := v.GT.Underlying().(*types.Slice)
		if !ok || !isLeafElem(st.Elem()) {
			e.fail("seq() needs a slice of a scalar element type")
		}
		key := "E|" + typeKey(st.Elem())
		g.ensureKey(key, g.sortOf(st.Elem()))
		return Val{S: app("select", e.heapGet(key), app("s_arr", v.S)), Sort: fmt.Sprintf("(Array %s %s)", g.idxSort(), g.sortOf(st.Elem())), ElemGT: st.Elem()}
	case "each":
		return e.eachAppended(x.Args[0])
	case "waited":
		v := arg(0)
		g.ensureKey("G|waited", "Bool")
		return g.boolVal(app("select", e.heapGet("G|waited"), v.S))
	case "elemptr":
		v := arg(0)
		st, ok := v.GT.Underlying().(*types.Slice)
		if !ok {
			e.fail("elemptr needs a slice")
		}
		i := e.concretize(arg(1), tInt)
		arr := app("s_arr", v.S)
		return Val{S: fmt.Sprintf("(mk-ptr (obj %s) (elem (path %s) %s))", arr, arr, app("sl.idx", v.S, g.toIdx(i))), Sort: "Ptr", GT: types.NewPointer(st.Elem())}
	case "off":
		v := arg(0)
		return Val{S: app("s_off", v.S), Sort: g.idxSort(), GT: tInt}
	case "substr":
		s := arg(0)
		lo := e.concretize(arg(1), tInt)
		hi := e.concretize(arg(2), tInt)
		return g.strSub(s.S, lo.S, hi.S)
	case "concat":
		return g.strConcat(arg(0).S, arg(1).S)
	case "strlt":
		g.needStrLt()
		return g.boolVal(app("gstr.lt", arg(0).S, arg(1).S))
	}
	if strings.HasPrefix(name, "fp.") || strings.HasPrefix(name, "bv.") {
		return e.fpIntrinsic(name, x)
	}
	// conversion to a named or basic type
	if id, ok := x.Fun.(*EIdent); ok && len(x.Args) == 1 && !e.isLocal(id.Name) {
		if t := e.tryType(id.Name); t != nil {
			return g.convert(e.concretizeForConv(arg(0), t), t, nil)
		}
	}
	if sel, ok := x.Fun.(*ESel); ok && len(x.Args) == 1 {
		if id, ok := sel.X.(*EIdent); ok {
			if p := e.findPkg(id.Name); p != nil {
				if tn, ok := p.Scope().Lookup(sel.Sel).(*types.TypeName); ok {
					return g.convert(e.concretizeForConv(arg(0), tn.Type()), tn.Type(), nil)
				}
			}
		}
	}
	// spec functions
	if sf := g.P.CS.Specs[name]; sf != nil {
		return e.specCall(sf, x)
	}
	// pure Go functions / intrinsics
	if fn := e.findGoFunc(name); fn != nil {
		var args []Val
		for i := range x.Args {
			a := arg(i)
			if i < len(fn.Params) {
				a = e.concretize(a, fn.Params[i].Type())
			}
			args = append(args, a)
		}
		var rt types.Type = fn.Signature.Results()
		if fn.Signature.Results().Len() == 1 {
			rt = fn.Signature.Results().At(0).Type()
		}
		full := fullName(fn)
		if intrinsics[full] {
			fr := e.f
			if fr == nil {
				fr = &Frame{g: g}
			}
			if v, ok := fr.intrinsic(full, args, rt); ok {
				return v
			}
		}
		if v, ok := e.pureCall(fn, args, rt); ok {
			return v
		}
		if uf := g.pureUF(fn); uf != "" {
			var sorts, as []string
			for _, a := range args {
				sorts = append(sorts, a.Sort)
				as = append(as, a.S)
			}
			g.declFun(uf, sorts, g.sortOf(rt))
			g.includeAxiomsFor(full)
			return Val{S: app(uf, as...), Sort: g.sortOf(rt), GT: rt}
		}
		if v, ok := e.inlineGo(fn, args); ok {
			return v
		}
		e.fail("Go function %s can only be used in specs if it is an intrinsic, declared pure, or inlinable in a lemma", full)
	}
	e.fail("unknown function %s in spec", name)
	return Val{}
}

func (e *Env) concretizeForConv(v Val, t types.Type) Val {
	if v.Untyped {
		return e.concretize(v, t)
	}
	return v
}

func (e *Env) tryType(name string) types.Type {
	switch name {
	case "int":
		return tInt
	case "int8":
		return types.Typ[types.Int8]
	case "int16":
		return types.Typ[types.Int16]
	case "int32", "rune":
		return types.Typ[types.Int32]
	case "int64":
		return types.Typ[types.Int64]
	case "uint":
		return types.Typ[types.Uint]
	case "uint8", "byte":
		return tByte
	case "uint16":
		return types.Typ[types.Uint16]
	case "uint32":
		return types.Typ[types.Uint32]
	case "uint64":
		return types.Typ[types.Uint64]
	case "float64":
		return tFloat64
	case "float32":
		return types.Typ[types.Float32]
	case "string":
		return tString
	}
	if e.pkg != nil {
		if tn, ok := e.pkg.Scope().Lookup(name).(*types.TypeName); ok {
			return tn.Type()
		}
	}
	return nil
}

func (e *Env) findGoFunc(name string) *ssa.Function {
	i := strings.Index(name, ".")
	if i < 0 {
		if e.pkg != nil {
			if sp := e.g.P.Pkgs[e.pkg.Path()]; sp != nil {
				return sp.Func(name)
			}
		}
		return nil
	}
	p := e.findPkg(name[:i])
	if p == nil {
		if sp := e.g.P.Pkgs[name[:i]]; sp != nil {
			return sp.Func(name[i+1:])
		}
		return nil
	}
	if sp := e.g.P.Pkgs[p.Path()]; sp != nil {
		return sp.Func(name[i+1:])
	}
	return nil
}

func (e *Env) fpIntrinsic(name string, x *ECall) Val {
	g := e.g
	arg := func(i int) Val { return e.tr(x.Args[i]) }
	intArg := func(i int) int {
		l, ok := x.Args[i].(*ELit)
		if !ok {
			e.fail("%s: argument %d must be an integer literal", name, i)
		}
		n, _ := strconv.Atoi(l.Val)
		return n
	}
	fl := func(i int) Val { return e.concretize(arg(i), tFloat64) }
	switch name {
	case "fp.isNaN":
		return g.boolVal(app("fp.isNaN", fl(0).S))
	case "fp.isInf":
		return g.boolVal(app("fp.isInfinite", fl(0).S))
	case "fp.isNeg":
		return g.boolVal(app("fp.isNegative", fl(0).S))
	case "fp.isPos":
		return g.boolVal(app("fp.isPositive", fl(0).S))
	case "fp.isZero":
		return g.boolVal(app("fp.isZero", fl(0).S))
	case "fp.abs":
		v := fl(0)
		return Val{S: app("fp.abs", v.S), Sort: v.Sort, GT: v.GT}
	case "fp.neg":
		v := fl(0)
		return Val{S: app("fp.neg", v.S), Sort: v.Sort, GT: v.GT}
	case "fp.add", "fp.sub", "fp.mul", "fp.div":
		a, b := fl(0), fl(1)
		return Val{S: app(name, "RNE", a.S, b.S), Sort: a.Sort, GT: a.GT}
	case "fp.rem":
		a, b := fl(0), fl(1)
		return Val{S: app("fp.rem", a.S, b.S), Sort: a.Sort, GT: a.GT}
	case "fp.eq", "fp.lt", "fp.leq", "fp.gt", "fp.geq":
		a, b := fl(0), fl(1)
		return g.boolVal(app(name, a.S, b.S))
	case "fp.trunc":
		v := fl(0)
		return Val{S: app("fp.roundToIntegral", "RTZ", v.S), Sort: v.Sort, GT: v.GT}
	case "fp.floor":
		v := fl(0)
		return Val{S: app("fp.roundToIntegral", "RTN", v.S), Sort: v.Sort, GT: v.GT}
	case "fp.round":
		v := fl(0)
		return Val{S: app("fp.roundToIntegral", "RNA", v.S), Sort: v.Sort, GT: v.GT}
	case "fp.nan":
		return Val{S: "(_ NaN 11 53)", Sort: "Float64", GT: tFloat64}
	case "fp.inf":
		return Val{S: "(_ +oo 11 53)", Sort: "Float64", GT: tFloat64}
	case "fp.to_ubv":
		n := intArg(0)
		return Val{S: fmt.Sprintf("((_ fp.to_ubv %d) RTZ %s)", n, fl(1).S), Sort: fmt.Sprintf("(_ BitVec %d)", n)}
	case "fp.to_sbv":
		n := intArg(0)
		return Val{S: fmt.Sprintf("((_ fp.to_sbv %d) RTZ %s)", n, fl(1).S), Sort: fmt.Sprintf("(_ BitVec %d)", n)}
	case "bv.extract":
		hi, lo := intArg(0), intArg(1)
		return Val{S: fmt.Sprintf("((_ extract %d %d) %s)", hi, lo, arg(2).S), Sort: fmt.Sprintf("(_ BitVec %d)", hi-lo+1)}
	case "bv.to_fp":
		return Val{S: fmt.Sprintf("((_ to_fp_unsigned 11 53) RNE %s)", arg(0).S), Sort: "Float64", GT: tFloat64}
	case "bv.to_fp_signed":
		return Val{S: fmt.Sprintf("((_ to_fp 11 53) RNE %s)", arg(0).S), Sort: "Float64", GT: tFloat64}
	case "bv.raw":
		// forget the Go type: view a Go integer as a raw bit-vector (arith bv only)
		v := arg(0)
		return Val{S: v.S, Sort: v.Sort}
	case "bv.as":
		// bv.as(T, x): give a raw bit-vector a Go integer type of the same width
		t := e.resolveType(x.Args[0].(*EIdent).Name)
		v := arg(1)
		return Val{S: v.S, Sort: v.Sort, GT: t}
	case "bv.sext", "bv.zext":
		n := intArg(0)
		v := arg(1)
		var w int
		fmt.Sscanf(v.Sort, "(_ BitVec %d)", &w)
		op := "sign_extend"
		if name == "bv.zext" {
			op = "zero_extend"
		}
		return Val{S: fmt.Sprintf("((_ %s %d) %s)", op, n, v.S), Sort: fmt.Sprintf("(_ BitVec %d)", w+n)}
	}
	e.fail("unknown intrinsic %s", name)
	return Val{}
}

// ---------------------------------------------------------------------------------------
// Spec functions

func (e *Env) paramVal(q QVar, prefix string) Val {
	g := e.g
	if s, gt, ok := e.specSort(q.Type); ok {
		v := Val{S: prefix + q.Name, Sort: s}
		if gt != nil {
			v.ElemGT = gt.(*types.Array).Elem()
		}
		return v
	}
	t := e.resolveType(q.Type)
	return Val{S: prefix + q.Name, Sort: g.sortOf(t), GT: t}
}

func (g *Gen) specFunc(sf *SpecFunc) *specDef {
	if d, ok := g.specDefs[sf.Name]; ok {
		return d
	}
	var pkg *types.Package
	if sp := g.P.Pkgs[sf.Pkg]; sp != nil {
		pkg = sp.Pkg
	} else {
		pkg = g.pkgOf
	}
	base := &Env{g: g, pkg: pkg, bind: map[string]Val{}}
	d := &specDef{name: "spec!" + sf.Name}
	for _, q := range sf.Params {
		d.params = append(d.params, base.paramVal(q, "p!"))
	}
	if s, gt, ok := base.specSort(sf.Ret); ok {
		d.retSort = s
		if gt != nil {
			d.retElem = gt.(*types.Array).Elem()
		}
	} else {
		d.retGT = base.resolveType(sf.Ret)
		d.retSort = g.sortOf(d.retGT)
	}
	g.specDefs[sf.Name] = d
	if sf.Body == nil {
		// uninterpreted
		var sorts []string
		for _, p := range d.params {
			sorts = append(sorts, p.Sort)
		}
		g.declFun(d.name, sorts, d.retSort)
		g.includeAxiomsFor(sf.Name)
		return d
	}
	// translate the body, iterating to a fixpoint on the heap maps it reads
	var body Val
	for iter := 0; iter < 4; iter++ {
		env := &Env{g: g, pkg: pkg, bind: map[string]Val{}, symHeap: &symHeap{names: map[string]string{}}}
		// keep previously discovered keys in order
		for _, k := range d.heapKeys {
			env.symHeap.names[k] = "h!" + sanitize(k)
			env.symHeap.keys = append(env.symHeap.keys, k)
		}
		for i, q := range sf.Params {
			env.bind[q.Name] = d.params[i]
		}
		d.translating = true
		body = env.tr(sf.Body)
		d.translating = false
		if body.Untyped {
			if d.retGT != nil {
				body = env.concretize(body, d.retGT)
			} else {
				body = env.concretizeSort(body, Val{Sort: d.retSort})
			}
		}
		if len(env.symHeap.keys) == len(d.heapKeys) {
			break
		}
		d.heapKeys = env.symHeap.keys
	}
	if body.Sort != d.retSort {
		panic(specError{fmt.Sprintf("spec func %s: body has sort %s, declared %s", sf.Name, body.Sort, d.retSort)})
	}
	var ps, sorts, names []string
	for _, p := range d.params {
		ps = append(ps, fmt.Sprintf("(%s %s)", p.S, p.Sort))
		sorts = append(sorts, p.Sort)
		names = append(names, p.S)
	}
	for _, k := range d.heapKeys {
		ps = append(ps, fmt.Sprintf("(h!%s %s)", sanitize(k), g.heapMapSort(k)))
		sorts = append(sorts, g.heapMapSort(k))
		names = append(names, "h!"+sanitize(k))
	}
	transparent := false
	if g.FC != nil {
		for _, n := range strings.Fields(g.FC.Opts["transparent"]) {
			if n == sf.Name {
				transparent = true
			}
		}
	}
	unfoldGround := false
	if g.FC != nil && sf.Rec {
		for _, n := range strings.Fields(g.FC.Opts["unfold"]) {
			if n == sf.Name {
				unfoldGround = true
			}
		}
	}
	opaque := false
	if g.FC != nil {
		for _, n := range strings.Fields(g.FC.Opts["opaque"]) {
			if n == sf.Name {
				opaque = true
			}
		}
	}
	if opaque {
		// abstract in this function: an uninterpreted function of its arguments and of the heap maps its body
		// reads (facts about it come only from callee contracts that mention it)
		g.declFun(d.name, sorts, d.retSort)
	} else if unfoldGround {
		// recursive spec function in ground-unfolding mode: an uninterpreted symbol; every application outside a
		// quantifier is unfolded exactly once (no quantified definitional axiom, hence no matching loop)
		g.declFun(d.name, sorts, d.retSort)
		d.unfoldBody = d.name + "!body"
		d.unfolded = map[string]bool{}
		g.decl(fmt.Sprintf("(define-fun %s (%s) %s %s)", d.unfoldBody, strings.Join(ps, " "), d.retSort, body.S))
	} else if sf.Rec || (!transparent && (strings.Contains(body.S, "(forall ") || strings.Contains(body.S, "(exists "))) {
		// recursive or quantified bodies stay opaque: an uninterpreted symbol plus a definitional
		// axiom triggered on applications (so equal arguments give equal values by congruence)
		g.declFun(d.name, sorts, d.retSort)
		call := d.name
		if len(names) > 0 {
			call = app(d.name, names...)
		}
		g.decl(fmt.Sprintf("(assert (forall (%s) (! (= %s %s) :pattern (%s))))", strings.Join(ps, " "), call, body.S, call))
	} else {
		g.decl(fmt.Sprintf("(define-fun %s (%s) %s %s)", d.name, strings.Join(ps, " "), d.retSort, body.S))
	}
	g.usedSpecs[sf.Name] = true
	g.includeAxiomsFor(sf.Name)
	return d
}

func (e *Env) specCall(sf *SpecFunc, x *ECall) Val {
	g := e.g
	d := g.specFunc(sf)
	if len(x.Args) != len(d.params) {
		e.fail("spec func %s expects %d arguments, got %d", sf.Name, len(d.params), len(x.Args))
	}
	var as []string
	for i := range x.Args {
		a := e.tr(x.Args[i])
		p := d.params[i]
		if a.Untyped {
			a = e.concretizeSort(a, p)
		}
		if a.Sort == "Nil" {
			a = e.nilOf(p)
		}
		if a.Sort != p.Sort {
			e.fail("spec func %s: argument %d has sort %s, expected %s", sf.Name, i, a.Sort, p.Sort)
		}
		as = append(as, a.S)
	}
	for _, k := range d.heapKeys {
		as = append(as, e.heapGet(k))
	}
	if d.translating && sf.Rec {
		// recursive call during body translation: heap keys may still be growing; handled by the fixpoint loop
	}
	s := d.name
	if len(as) > 0 {
		s = app(d.name, as...)
	}
	if d.unfoldBody != "" && !d.translating && !d.unfolded[s] && (e.inQuant == 0 || !strings.Contains(s, "q!")) && !strings.Contains(s, "p!") {
		d.unfolded[s] = true
		// an instance of the definition: valid everywhere, so it goes with the declarations (obligations
		// created before this point see it too)
		g.decl(fmt.Sprintf("(assert %s)", eq(s, app(d.unfoldBody, as...))))
	}
	return Val{S: s, Sort: d.retSort, GT: d.retGT, ElemGT: d.retElem}
}

// includeAxiomsFor adds the axioms filed under `for=<sym>`.
func (g *Gen) includeAxiomsFor(sym string) {
	for _, ax := range g.P.CS.Axioms {
		if ax.IsLemma || g.axiomsIn[ax.Name] {
			continue
		}
		hit := false
		for _, p := range ax.Props {
			if p == "for="+sym {
				hit = true
			}
		}
		if !hit {
			continue
		}
		if (ax.Arith == "bv") != g.BV && ax.Arith != "any" {
			continue
		}
		g.axiomsIn[ax.Name] = true
		g.addAxiom(ax)
	}
}

func (g *Gen) addAxiom(ax *Axiom) {
	var pkg *types.Package
	if sp := g.P.Pkgs[ax.Pkg]; sp != nil {
		pkg = sp.Pkg
	} else {
		pkg = g.pkgOf
	}
	env := &Env{g: g, pkg: pkg, bind: map[string]Val{}, symHeap: &symHeap{names: map[string]string{}}}
	body := env.trBool(ax.E)
	if len(env.symHeap.keys) > 0 {
		// quantify over the heap maps the axiom reads
		var ps []string
		for _, k := range env.symHeap.keys {
			ps = append(ps, fmt.Sprintf("(h!%s %s)", sanitize(k), g.heapMapSort(k)))
		}
		body = fmt.Sprintf("(forall (%s) %s)", strings.Join(ps, " "), body)
	}
	g.decl(fmt.Sprintf("(assert %s) ; axiom %s", body, ax.Name))
	g.Assumptions["axiom "+ax.Name+": "+ax.Text] = true
}

// typeText renders an expression that denotes a type (*T, pkg.T, []T) back to text.
func typeText(x Expr) string {
	switch x := x.(type) {
	case *EType:
		return x.Text
	case *EIdent:
		return x.Name
	case *EUnary:
		if x.Op == "*" {
			return "*" + typeText(x.X)
		}
	case *ESel:
		return typeText(x.X) + "." + x.Sel
	}
	panic(specError{"expected a type, found " + exprString(x)})
}

// pureCall translates a call of a function whose contract is declared pure into its uninterpreted function.
func (e *Env) pureCall(fn *ssa.Function, args []Val, rt types.Type) (Val, bool) {
	g := e.g
	fc := g.P.ContractFor(fn)
	if fc != nil && fc.Opts["heappure"] != "" {
		// heap-reading deterministic function: an uninterpreted application (no axioms; facts about it come
		// from the ensures assumed at real call sites)
		if !g.heapStable() {
			e.fail("heap-dependent pure function %s used in the contract of a function that may modify the heap", fullName(fn))
		}
		_, r := g.heapPureResults(fn, args)
		return r, true
	}
	if fc == nil || fc.Opts["pure"] == "" {
		return Val{}, false
	}
	if e.inQuant > 0 || e.symHeap != nil {
		// under a binder the ensures cannot be instantiated at this term: use the quantified contract
		g.pureAxiom(fn, fc)
		uf := "uf!" + sanitize(fullName(fn))
		var sorts, as []string
		for _, a := range args {
			sorts = append(sorts, a.Sort)
			as = append(as, a.S)
		}
		g.declFun(uf, sorts, g.sortOf(rt))
		return Val{S: app(uf, as...), Sort: g.sortOf(rt), GT: rt}, true
	}
	return g.applyPure(fn, fc, args, e.reach), true
}

// methodCall: x.M(args) on a real Go method, inlined (lemmas and ground contexts only).
func (e *Env) methodCall(sel *ESel, x *ECall) Val {
	g := e.g
	recv := e.tr(sel.X)
	if recv.GT == nil {
		e.fail("method call on a spec value without Go type: %s", exprString(x))
	}
	ms := g.P.Prog.MethodSets.MethodSet(recv.GT)
	var pkg *types.Package
	if n, ok := derefNamed(recv.GT); ok {
		pkg = n.Obj().Pkg()
	}
	s := ms.Lookup(pkg, sel.Sel)
	if s == nil {
		e.fail("type %s has no method %s", recv.GT, sel.Sel)
	}
	fn := g.P.Prog.MethodValue(s)
	if fn == nil {
		e.fail("method %s of %s has no body (interface method?)", sel.Sel, recv.GT)
	}
	args := []Val{recv}
	for i, a := range x.Args {
		v := e.tr(a)
		if i+1 < len(fn.Params) {
			v = e.concretize(v, fn.Params[i+1].Type())
			if v.Sort == "Nil" {
				v = g.zero(fn.Params[i+1].Type())
			}
		}
		args = append(args, v)
	}
	var mrt types.Type = fn.Signature.Results()
	if fn.Signature.Results().Len() == 1 {
		mrt = fn.Signature.Results().At(0).Type()
	}
	if v, ok := e.pureCall(fn, args, mrt); ok {
		return v
	}
	if v, ok := e.inlineGo(fn, args); ok {
		return v
	}
	e.fail("method %s cannot be inlined here", fullName(fn))
	return Val{}
}

func derefNamed(t types.Type) (*types.Named, bool) {
	if p, ok := t.(*types.Pointer); ok {
		t = p.Elem()
	}
	n, ok := t.(*types.Named)
	return n, ok
}

// leafExpr translates a call of a small loop-free Go function that only computes on its arguments
// (comparisons, arithmetic, struct field extraction, conversions, short-circuit operators) into a closed
// expression by substitution. Unlike inlineGo it introduces no named definitions, so it may be used under
// quantifiers and in spec functions. ok=false if the function is outside this subset.
func (e *Env) leafExpr(fn *ssa.Function, args []Val) (Val, bool) {
	g := e.g
	if len(fn.Blocks) == 0 || len(fn.Blocks) > 12 || fn.Signature.Results().Len() != 1 || len(fn.FreeVars) > 0 {
		return Val{}, false
	}
	for _, b := range fn.Blocks {
		for _, in := range b.Instrs {
			switch in := in.(type) {
			case *ssa.DebugRef, *ssa.BinOp, *ssa.Convert, *ssa.ChangeType, *ssa.Field, *ssa.Phi, *ssa.If, *ssa.Jump, *ssa.Return:
			case *ssa.Alloc:
				// a spilled parameter or local (its address is only used for field selection and loads)
				if in.Heap {
					return Val{}, false
				}
			case *ssa.Store:
				if _, ok := in.Addr.(*ssa.Alloc); !ok {
					return Val{}, false
				}
			case *ssa.FieldAddr:
				x := in.X
				for {
					if fa, ok := x.(*ssa.FieldAddr); ok {
						x = fa.X
						continue
					}
					break
				}
				if _, ok := x.(*ssa.Alloc); !ok {
					return Val{}, false
				}
			case *ssa.UnOp:
				if in.Op == token.ARROW {
					return Val{}, false
				}
				if in.Op == token.MUL {
					x := in.X
					for {
						if fa, ok := x.(*ssa.FieldAddr); ok {
							x = fa.X
							continue
						}
						break
					}
					if _, ok := x.(*ssa.Alloc); !ok {
						return Val{}, false
					}
				}
			default:
				return Val{}, false
			}
		}
	}
	// topological order of the (acyclic) control-flow graph
	indeg := map[*ssa.BasicBlock]int{}
	for _, b := range fn.Blocks {
		indeg[b] = len(b.Preds)
	}
	var order []*ssa.BasicBlock
	queue := []*ssa.BasicBlock{fn.Blocks[0]}
	for len(queue) > 0 {
		b := queue[0]
		queue = queue[1:]
		order = append(order, b)
		for _, s := range b.Succs {
			indeg[s]--
			if indeg[s] == 0 {
				queue = append(queue, s)
			}
		}
	}
	if len(order) != len(fn.Blocks) {
		return Val{}, false // a loop
	}
	sub := &Frame{g: g, fn: fn, sfx: "_leaf", subst: true, vals: map[ssa.Value]Val{}, reach: map[*ssa.BasicBlock]string{},
		freeVars: map[*ssa.FreeVar]Val{}, instrIdx: map[ssa.Instruction]int{}}
	for i, p := range fn.Params {
		if i >= len(args) {
			return Val{}, false
		}
		sub.vals[p] = args[i]
	}
	rt := fn.Signature.Results().At(0).Type()
	var result *Val
	locals := map[*ssa.Alloc]Val{}
	var loadLocal func(addr ssa.Value) Val
	loadLocal = func(addr ssa.Value) Val {
		switch a := addr.(type) {
		case *ssa.Alloc:
			if v, ok := locals[a]; ok {
				return v
			}
			return g.zero(a.Type().Underlying().(*types.Pointer).Elem())
		case *ssa.FieldAddr:
			return g.structField(loadLocal(a.X), a.Field)
		}
		panic(specError{"leafExpr: unexpected address"})
	}
	for _, b := range order {
		r := "true"
		if b != fn.Blocks[0] {
			var cs []string
			for _, p := range b.Preds {
				cs = append(cs, sub.edgeCond(p, b))
			}
			r = or(cs...)
		}
		sub.reach[b] = r
		sub.curReach = r
		for _, in := range b.Instrs {
			switch in := in.(type) {
			case *ssa.Phi:
				var v Val
				for i := len(b.Preds) - 1; i >= 0; i-- {
					x := sub.val(in.Edges[i])
					if v.S == "" {
						v = x
						v.GT = in.Type()
						continue
					}
					v = Val{S: fmt.Sprintf("(ite %s %s %s)", sub.edgeCond(b.Preds[i], b), x.S, v.S), Sort: x.Sort, GT: in.Type()}
				}
				sub.vals[in] = v
			case *ssa.If, *ssa.Jump, *ssa.DebugRef, *ssa.Alloc, *ssa.FieldAddr:
			case *ssa.Store:
				if len(order) > 1 && b != fn.Blocks[0] {
					return Val{}, false // stores to locals only in the entry block (parameter spills)
				}
				locals[in.Addr.(*ssa.Alloc)] = sub.val(in.Val)
			case *ssa.UnOp:
				if in.Op == token.MUL {
					v := loadLocal(in.X)
					v.GT = in.Type()
					sub.vals[in] = v
				} else {
					sub.instr(in)
				}
			case *ssa.Return:
				x := sub.val(in.Results[0])
				if result == nil {
					x.GT = rt
					result = &x
				} else {
					nv := Val{S: fmt.Sprintf("(ite %s %s %s)", r, x.S, result.S), Sort: x.Sort, GT: rt}
					result = &nv
				}
			default:
				sub.instr(in)
			}
		}
	}
	if result == nil {
		return Val{}, false
	}
	return *result, true
}

// inlineGo symbolically executes a real (loop-free or contracted) Go function inside a lemma.
func (e *Env) inlineGo(fn *ssa.Function, args []Val) (Val, bool) {
	g := e.g
	if e.inQuant > 0 || e.lemmaFrame == nil {
		if g.P.ContractFor(fn) == nil {
			return e.leafExpr(fn, args)
		}
		return Val{}, false
	}
	fr := e.lemmaFrame
	var rt types.Type = fn.Signature.Results()
	if fn.Signature.Results().Len() == 1 {
		rt = fn.Signature.Results().At(0).Type()
	}
	saveCur := fr.cur
	fr.cur = e.heap.child()
	var v Val
	if fc := g.P.ContractFor(fn); fc != nil {
		v = fr.applyContract(fn, fc, args, nil, rt)
	} else if inlinable(fn) {
		v = fr.inline(fn, args, nil, rt)
	} else {
		fr.cur = saveCur
		return Val{}, false
	}
	// specs are evaluated in a fixed heap; effects of the inlined call are not propagated
	fr.cur = saveCur
	return v, true
}

// pureAxiom adds the universally quantified form of a pure (trusted) contract, triggered on applications.
func (g *Gen) pureAxiom(fn *ssa.Function, fc *FuncContract) {
	name := fullName(fn)
	if g.axiomsIn["pure:"+name] {
		return
	}
	g.axiomsIn["pure:"+name] = true
	uf := "uf!" + sanitize(name)
	var rt types.Type = fn.Signature.Results().At(0).Type()
	bind := map[string]Val{}
	var decl, sorts, names []string
	for _, p := range fn.Params {
		s := g.sortOf(p.Type())
		n := "pa!" + sanitize(p.Name())
		bind[p.Name()] = Val{S: n, Sort: s, GT: p.Type()}
		decl = append(decl, fmt.Sprintf("(%s %s)", n, s))
		sorts = append(sorts, s)
		names = append(names, n)
	}
	g.declFun(uf, sorts, g.sortOf(rt))
	r := Val{S: app(uf, names...), Sort: g.sortOf(rt), GT: rt}
	var pkg *types.Package
	if fn.Pkg != nil {
		pkg = fn.Pkg.Pkg
	}
	env := &Env{g: g, bind: bind, results: []Val{r}, pkg: pkg, symHeap: &symHeap{names: map[string]string{}}, inQuant: 1}
	var cs []string
	for _, c := range fc.Clauses {
		if c.Kind == "ensures" {
			cs = append(cs, env.trBool(c.E))
		}
	}
	cs = append(cs, g.typeInv(r, ""))
	g.decl(fmt.Sprintf("(assert (forall (%s) (! %s :pattern (%s))))", strings.Join(decl, " "), and(cs...), r.S))
	g.Assumptions["trusted contract (assumed, body not verified): "+name+": "+clauseTexts(fc)] = true
}

// eachAppended expands each(P) over the elements appended at the current append site.
func (e *Env) eachAppended(body Expr) Val {
	g := e.g
	if e.appendArg == nil {
		e.fail("each(...) is only available in `site ...: append` clauses")
	}
	f := e.appendFrame
	dest := e.bind["dest"]
	st := dest.GT.Underlying().(*types.Slice)
	key := "E|" + typeKey(st.Elem())
	g.ensureKey(key, g.sortOf(st.Elem()))
	// element k of slice s in the current heap: leaf elements come from the two-level element map, struct elements
	// are read field by field through the element pointer (that is how composite literals are stored)
	_, elemIsStruct := st.Elem().Underlying().(*types.Struct)
	elemAt := func(s string, idx string) Val {
		if elemIsStruct {
			ptr := fmt.Sprintf("(mk-ptr (obj (s_arr %s)) (elem (path (s_arr %s)) (sl.idx %s %s)))", s, s, s, idx)
			pl := g.placeOf(Val{S: ptr, Sort: "Ptr", GT: types.NewPointer(st.Elem())})
			return g.loadAt(pl, st.Elem(), e.loadHeap())
		}
		return Val{S: app("select", app("select", e.heapGet(key), app("s_arr", s)), app("sl.idx", s, idx)), Sort: g.sortOf(st.Elem()), GT: st.Elem()}
	}
	lastOfDest := elemAt(dest.S, g.isub(app("s_len", dest.S), g.idxLit(1)))
	destNonEmpty := g.icmp(">", app("s_len", dest.S), g.idxLit(0), true)
	arg := f.val(e.appendArg)
	n := constSliceLen(e.appendArg)
	var conj []string
	if n >= 0 && n <= 16 {
		// literal elements: read them from the argument array
		var elems []Val
		for k := 0; k < n; k++ {
			elems = append(elems, elemAt(arg.S, g.idxLit(int64(k))))
		}
		for k := 0; k < n; k++ {
			c := e.child()
			c.bind["elem"] = elems[k]
			if k > 0 {
				c.bind["prev"] = elems[k-1]
				c.bind["hasPrev"] = g.boolVal("true")
			} else {
				c.bind["prev"] = lastOfDest
				c.bind["hasPrev"] = g.boolVal(destNonEmpty)
			}
			conj = append(conj, c.trBool(body))
		}
		return g.boolVal(and(conj...))
	}
	// a string or slice operand: quantify over its positions
	g.qseq++
	qk := fmt.Sprintf("q!ek!%d", g.qseq)
	var length string
	var at func(i string) Val
	if isString(arg.GT) {
		length = app("gstr.len", arg.S)
		at = func(i string) Val { return Val{S: app("gstr.at", arg.S, i), Sort: g.sortOf(tByte), GT: st.Elem()} }
	} else {
		length = app("s_len", arg.S)
		at = func(i string) Val { return elemAt(arg.S, i) }
	}
	c := e.child()
	c.inQuant++
	c.bind["elem"] = at(qk)
	c.bind["prev"] = Val{S: ite(g.icmp(">", qk, g.idxLit(0), true), at(g.isub(qk, g.idxLit(1))).S, lastOfDest.S), Sort: g.sortOf(st.Elem()), GT: st.Elem()}
	c.bind["hasPrev"] = g.boolVal(or(g.icmp(">", qk, g.idxLit(0), true), destNonEmpty))
	bodyS := c.trBool(body)
	return g.boolVal(fmt.Sprintf("(forall ((%s %s)) (=> (and %s %s) %s))", qk, g.idxSort(), g.icmp("<=", g.idxLit(0), qk, true), g.icmp("<", qk, length, true), bodyS))
}
