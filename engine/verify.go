package main

import (
	"context"
	"fmt"
	"os"
	"os/exec"
	"path/filepath"
	"strings"
	"sync"
	"time"
)

// VerifyFunc generates the obligations of one function contract (Mode A).
func VerifyFunc(p *Program, fc *FuncContract) (g *Gen, err error) {
	fn := p.LookupFunc(fc.Pkg, fc.Name)
	if fn == nil {
		return nil, fmt.Errorf("contract-target-missing: %s.%s", fc.Pkg, fc.Name)
	}
	if fn.Blocks == nil {
		return nil, fmt.Errorf("contract-target-has-no-body: %s.%s", fc.Pkg, fc.Name)
	}
	g = NewGen(p, fn, fc)
	defer func() {
		if r := recover(); r != nil {
			if se, ok := r.(specError); ok {
				err = fmt.Errorf("contract-stale: %s.%s: %s", fc.Pkg, fc.Name, se.msg)
				return
			}
			panic(r)
		}
	}()
	f := g.newFrame(fn, "", true)
	entry := g.newBaseHeap("entry")
	g.assume(app(">=", entry.get("$alloc"), "0"))
	var args []Val
	for _, prm := range fn.Params {
		s := g.sortOf(prm.Type())
		n := g.declConst("$"+sanitize(prm.Name()), s)
		v := Val{S: n, Sort: s, GT: prm.Type()}
		g.assume(g.typeInv(v, entry.get("$alloc")))
		args = append(args, v)
	}
	for _, fv := range fn.FreeVars {
		v := f.val(fv)
		g.assume(g.typeInv(v, entry.get("$alloc")))
	}
	f.args = args
	f.entry = entry
	for i, prm := range fn.Params {
		f.vals[prm] = args[i]
	}
	envPre := &Env{g: g, f: f, heap: entry, old: entry, bind: map[string]Val{}, pkg: fn.Pkg.Pkg, reach: "true"}
	for _, c := range fc.Clauses {
		if c.Kind == "requires" {
			g.assume(envPre.trBool(c.E))
		}
	}
	g.addOblig(&Oblig{Name: f.obName("cover", nil, 0) + "requires-satisfiable", Kind: "cover", Goal: "false", Cover: true})
	f.Walk(args, entry, "true")
	envPost := &Env{g: g, f: f, heap: f.exitHeap, old: entry, bind: map[string]Val{}, results: f.results, pkg: fn.Pkg.Pkg, reach: f.exitReach}
	k := 0
	for _, c := range fc.Clauses {
		if c.Kind != "ensures" {
			continue
		}
		goal := envPost.trBool(c.E)
		g.addOblig(&Oblig{Name: f.obName("ensures", c, k), Kind: "ensures", Goal: implies(f.exitReach, goal), Pos: f.pos(fn.Pos()), Text: c.Text})
		k++
	}
	if f.exitReach != "false" {
		g.addOblig(&Oblig{Name: f.obName("cover", nil, 0) + "exit-reachable", Kind: "cover", Goal: not(f.exitReach), Cover: true})
	}
	return g, nil
}

// SMTFor renders the query for one obligation.
func (g *Gen) SMTFor(o *Oblig) string {
	var b strings.Builder
	b.WriteString("; obligation " + o.Name + "\n")
	if o.Pos != "" {
		b.WriteString("; at " + o.Pos + "\n")
	}
	if o.Text != "" {
		b.WriteString("; clause: " + strings.ReplaceAll(o.Text, "\n", " ") + "\n")
	}
	b.WriteString(prelude(g.BV, g.usesStr(o)))
	for _, d := range g.decls {
		b.WriteString(d)
		b.WriteString("\n")
	}
	for i := 0; i < o.NAsserts && i < len(g.asserts); i++ {
		b.WriteString("(assert ")
		b.WriteString(g.asserts[i])
		b.WriteString(")\n")
	}
	b.WriteString("(assert (not " + o.Goal + "))\n")
	b.WriteString("(check-sat)\n")
	return b.String()
}

type SolverCfg struct {
	Name string
	Args func(file string, timeoutS int) []string
}

var solvers = []SolverCfg{
	{"z3-new", func(f string, t int) []string { return []string{"z3-new", fmt.Sprintf("-T:%d", t), f} }},
	{"z3", func(f string, t int) []string { return []string{"z3", fmt.Sprintf("-T:%d", t), f} }},
	{"cvc5", func(f string, t int) []string {
		return []string{"cvc5", fmt.Sprintf("--tlimit=%d", t*1000), "--produce-models", f}
	}},
}

type solveResult struct {
	status string
	solver string
	ms     int
	out    string
}

func runSolver(ctx context.Context, sc SolverCfg, file string, timeoutS int, wantModel bool) solveResult {
	args := sc.Args(file, timeoutS)
	start := time.Now()
	cctx, cancel := context.WithTimeout(ctx, time.Duration(timeoutS+2)*time.Second)
	defer cancel()
	cmd := exec.CommandContext(cctx, args[0], args[1:]...)
	out, _ := cmd.CombinedOutput()
	ms := int(time.Since(start).Milliseconds())
	s := strings.TrimSpace(string(out))
	first := s
	if i := strings.Index(s, "\n"); i >= 0 {
		first = strings.TrimSpace(s[:i])
	}
	st := "unknown"
	switch {
	case first == "unsat":
		st = "unsat"
	case first == "sat":
		st = "sat"
	case first == "timeout" || strings.Contains(first, "timeout") || cctx.Err() != nil:
		st = "timeout"
	case first == "unknown":
		st = "unknown"
	case strings.Contains(s, "error") || strings.Contains(s, "Error"):
		st = "error"
	}
	return solveResult{status: st, solver: sc.Name, ms: ms, out: truncate(s, 4000)}
}

// Discharge runs the solver portfolio on one obligation.
func Discharge(g *Gen, o *Oblig, dir string, timeoutS int) {
	file := filepath.Join(dir, sanitize(o.Name)+".smt2")
	smt := g.SMTFor(o)
	os.WriteFile(file, []byte(smt), 0o644)
	o.File = file
	definitive := func(r solveResult) bool { return r.status == "unsat" || r.status == "sat" }
	// stage 1: newest z3 alone, short
	quick := 3
	if timeoutS < quick {
		quick = timeoutS
	}
	r := runSolver(context.Background(), solvers[0], file, quick, false)
	var errs []string
	if !definitive(r) {
		if r.status == "error" {
			errs = append(errs, r.solver+": "+r.out)
		}
		ctx, cancel := context.WithCancel(context.Background())
		ch := make(chan solveResult, len(solvers))
		for _, sc := range solvers {
			sc := sc
			go func() { ch <- runSolver(ctx, sc, file, timeoutS, false) }()
		}
		got := 0
		for got < len(solvers) {
			rr := <-ch
			got++
			if rr.status == "error" {
				errs = append(errs, rr.solver+": "+rr.out)
			}
			if definitive(rr) {
				r = rr
				break
			}
			if r.status == "error" || (rr.status != "error" && !definitive(r)) {
				r = rr
			}
		}
		cancel()
	}
	o.Status, o.Solver, o.Ms = r.status, r.solver, r.ms
	if r.status == "sat" {
		// fetch a model with the deciding solver
		mfile := strings.TrimSuffix(file, ".smt2") + ".model.smt2"
		os.WriteFile(mfile, []byte(smt+"(get-model)\n"), 0o644)
		for _, sc := range solvers {
			if sc.Name == r.solver {
				mr := runSolver(context.Background(), sc, mfile, timeoutS, true)
				o.Model = mr.out
			}
		}
	} else if r.status != "unsat" {
		o.Model = r.out
		if len(errs) > 0 {
			o.Model = strings.Join(errs, "\n")
		}
	}
}

func DischargeAll(g *Gen, dir string, timeoutS int, par int) {
	var wg sync.WaitGroup
	sem := make(chan struct{}, par)
	for _, o := range g.Obligs {
		o := o
		wg.Add(1)
		sem <- struct{}{}
		go func() {
			defer wg.Done()
			defer func() { <-sem }()
			Discharge(g, o, dir, timeoutS)
		}()
	}
	wg.Wait()
}

// ok reports whether the obligation is in its expected state.
func (o *Oblig) OK() bool {
	if o.Cover {
		return o.Status != "unsat"
	}
	return o.Status == "unsat"
}

// usesStr reports whether the query mentions string operations (the quantified string axioms are only added then).
func (g *Gen) usesStr(o *Oblig) bool {
	if strings.Contains(o.Goal, "gstr.") {
		return true
	}
	for _, d := range g.decls {
		if strings.Contains(d, "gstr.") {
			return true
		}
	}
	for i := 0; i < o.NAsserts && i < len(g.asserts); i++ {
		if strings.Contains(g.asserts[i], "gstr.") {
			return true
		}
	}
	return false
}
