package main

import (
	"context"
	"fmt"
	"os"
	"os/exec"
	"path/filepath"
	"sort"
	"strings"
	"sync"
	"time"
)

// VerifyFunc generates the obligations of one function contract (Mode A).
func VerifyFunc(p *Program, fc *FuncContract) (g *Gen, err error) {
	var frameOblig *Oblig
	fn := p.LookupFunc(fc.Pkg, fc.Name)
	if fn == nil {
		return nil, fmt.Errorf("contract-target-missing: %s.%s", fc.Pkg, fc.Name)
	}
	if fn.Blocks == nil {
		return nil, fmt.Errorf("contract-target-has-no-body: %s.%s", fc.Pkg, fc.Name)
	}
	g = NewGen(p, fn, fc)
	defer func() {
		if r := recover(); r != nil {
			if se, ok := r.(specError); ok {
				err = fmt.Errorf("contract-stale: %s.%s: %s", fc.Pkg, fc.Name, se.msg)
				return
			}
			panic(r)
		}
	}()
	if fc.HasMods {
		// a declared frame is checked against the frame inferred from the body; where the body's frame
		// cannot be inferred (dynamic calls) the declared frame is an assumption and is listed
		raw := p.RawModSetOf(fn)
		decl := p.DeclaredMods(fc)
		if !decl.All {
			pkgShort := fc.Pkg[strings.LastIndex(fc.Pkg, "/")+1:]
			fo := &Oblig{Name: pkgShort + "." + fc.Name + "#frame", Kind: "frame", Goal: "true", Text: "modifies " + strings.Join(fc.Mods, ", ") + " (writes to objects allocated during the call are always allowed)"}
			if raw.All {
				fo.Pre = "unknown"
				fo.Model = "the frame cannot be inferred: " + p.WhyAll(fn)
			} else {
				fo.Pre = "unsat"
				var bad []string
				forbid := strings.Fields(fc.Opts["frame-forbid"])
				for k := range raw.Maps {
					if decl.Maps[k] {
						continue
					}
					if len(forbid) > 0 {
						hit := false
						for _, fb := range forbid {
							if strings.Contains(k, fb) {
								hit = true
							}
						}
						if !hit {
							continue
						}
					}
					bad = append(bad, k+" (e.g. "+p.WhyKey(fn, k)+")")
				}
				sort.Strings(bad)
				if len(bad) > 0 {
					fo.ReplayTemplate = fc.Opts["scenario"]
					fo.ReplayPkgDir = strings.TrimPrefix(strings.TrimPrefix(fc.Pkg, modPath), "/")
					fo.Pre = "sat"
					fo.Model = "writes to pre-existing objects through heap maps outside the declared frame: " + strings.Join(bad, "; ")
				}
			}
			frameOblig = fo
		}
	}
	if fc.Opts["frame-only"] != "" {
		if frameOblig == nil {
			return nil, fmt.Errorf("contract of %s.%s is frame-only but declares no bounded `modifies` clause", fc.Pkg, fc.Name)
		}
		g.addOblig(frameOblig)
		return g, nil
	}
	f := g.newFrame(fn, "", true)
	entry := g.newBaseHeap("entry")
	g.assume(app(">=", entry.get("$alloc"), "0"))
	var args []Val
	for _, prm := range fn.Params {
		s := g.sortOf(prm.Type())
		n := g.declConst("$"+sanitize(prm.Name()), s)
		v := Val{S: n, Sort: s, GT: prm.Type()}
		g.assume(g.typeInv(v, entry.get("$alloc")))
		args = append(args, v)
	}
	for _, fv := range fn.FreeVars {
		v := f.val(fv)
		g.assume(g.typeInv(v, entry.get("$alloc")))
		// a captured variable is a cell the enclosing function allocated: never nil
		if v.Sort == "Ptr" {
			g.assume(app("not", eq(v.S, "nilptr")))
		}
	}
	f.args = args
	f.entry = entry
	for i, prm := range fn.Params {
		f.vals[prm] = args[i]
	}
	envPre := &Env{g: g, f: f, heap: entry, old: entry, bind: map[string]Val{}, pkg: fn.Pkg.Pkg, reach: "true"}
	for _, c := range fc.Clauses {
		if c.Kind == "requires" {
			g.assume(envPre.trBool(c.E))
		}
	}
	if frameOblig != nil {
		g.addOblig(frameOblig)
	}
	g.addOblig(&Oblig{Name: f.obName("cover", nil, 0) + "requires-satisfiable", Kind: "cover", Goal: "false", Cover: true})
	f.Walk(args, entry, "true")
	// one sub-goal per (ensures clause, return site); sub-goals of one return site are discharged together
	k := 0
	groups := make([]*retGroup, len(f.retReach))
	for i := range groups {
		groups[i] = &retGroup{}
	}
	for _, c := range fc.Clauses {
		if c.Kind != "ensures" {
			continue
		}
		o := &Oblig{Name: f.obName("ensures", c, k), Kind: "ensures", Pos: f.pos(fn.Pos()), Text: c.Text, ClauseProps: c.Props}
		var goals []string
		for r := range f.retReach {
			env := &Env{g: g, f: f, heap: f.retHeaps[r], old: entry, bind: map[string]Val{}, results: f.retVals[r], pkg: fn.Pkg.Pkg, reach: f.retReach[r]}
			goal := implies(f.retReach[r], env.trBool(c.E))
			goals = append(goals, goal)
			sub := &Oblig{Name: fmt.Sprintf("%s@ret%d", o.Name, r), Kind: "ensures", Goal: goal, NAsserts: len(g.asserts), Text: c.Text, Pos: o.Pos}
			if len(fc.Witness) == 0 && fc.Opts["scenario"] != "" {
				sub.ReplayTemplate = fc.Opts["scenario"]
				sub.ReplayPkgDir = strings.TrimPrefix(strings.TrimPrefix(fc.Pkg, modPath), "/")
			}
			for _, w := range fc.Witness {
				wv := env.tr(w.E)
				if wv.Untyped {
					wv = env.concretize(wv, tInt)
				}
				sub.WitTerms = append(sub.WitTerms, [2]string{w.Label, wv.S})
			}
			o.Subs = append(o.Subs, sub)
			groups[r].subs = append(groups[r].subs, sub)
		}
		o.Goal = and(goals...)
		if len(f.retReach) == 0 {
			o.Goal = "true"
		}
		g.addOblig(o)
		k++
	}
	if k > 0 {
		g.retGroups = groups
	}
	for _, sc := range fc.Sites {
		if g.siteHits[sc.Label] == 0 {
			return nil, fmt.Errorf("contract-stale: %s.%s: site %s (%s) matches no instruction", fc.Pkg, fc.Name, sc.Label, sc.Pattern)
		}
	}
	if f.exitReach != "false" {
		g.addOblig(&Oblig{Name: f.obName("cover", nil, 0) + "exit-reachable", Kind: "cover", Goal: not(f.exitReach), Cover: true})
	}
	return g, nil
}

// SMTFor renders the query for one obligation.
func (g *Gen) SMTFor(o *Oblig) string { return g.SMTForOpts(o, false) }

// SMTForOpts: with dropQuant the quantified global axioms (definitions of recursive/quantified spec
// functions) are omitted, which over-approximates; used only to look for a candidate counterexample
// that is then replayed on the real code.
func (g *Gen) SMTForOpts(o *Oblig, dropQuant bool) string {
	var b strings.Builder
	b.WriteString("; obligation " + o.Name + "\n")
	if o.Pos != "" {
		b.WriteString("; at " + o.Pos + "\n")
	}
	if o.Text != "" {
		b.WriteString("; clause: " + strings.ReplaceAll(o.Text, "\n", " ") + "\n")
	}
	b.WriteString(prelude(g.BV, g.usesStr(o)))
	for _, d := range g.decls {
		if dropQuant && strings.HasPrefix(d, "(assert (forall") {
			continue
		}
		b.WriteString(d)
		b.WriteString("\n")
	}
	var idx []int
	if o.Cover || g.noSlice {
		for i := 0; i < o.NAsserts && i < len(g.asserts); i++ {
			idx = append(idx, i)
		}
	} else {
		idx = g.sliceFor(o.Goal, o.NAsserts)
	}
	for _, i := range idx {
		if dropQuant && strings.HasPrefix(g.asserts[i], "(forall") {
			continue
		}
		b.WriteString("(assert ")
		b.WriteString(g.asserts[i])
		b.WriteString(")\n")
	}
	b.WriteString("(assert (not " + o.Goal + "))\n")
	b.WriteString("(check-sat)\n")
	return b.String()
}

type SolverCfg struct {
	Name string
	Args func(file string, timeoutS int) []string
}

var solvers = []SolverCfg{
	{"z3-new", func(f string, t int) []string { return []string{"z3-new", fmt.Sprintf("-T:%d", t), f} }},
	{"z3", func(f string, t int) []string { return []string{"z3", fmt.Sprintf("-T:%d", t), f} }},
	{"cvc5", func(f string, t int) []string {
		return []string{"cvc5", fmt.Sprintf("--tlimit=%d", t*1000), "--produce-models", f}
	}},
}

type solveResult struct {
	status string
	solver string
	ms     int
	out    string
}

func runSolver(ctx context.Context, sc SolverCfg, file string, timeoutS int, wantModel bool) solveResult {
	args := sc.Args(file, timeoutS)
	start := time.Now()
	cctx, cancel := context.WithTimeout(ctx, time.Duration(timeoutS+2)*time.Second)
	defer cancel()
	cmd := exec.CommandContext(cctx, args[0], args[1:]...)
	out, _ := cmd.CombinedOutput()
	ms := int(time.Since(start).Milliseconds())
	s := strings.TrimSpace(string(out))
	first := s
	if i := strings.Index(s, "\n"); i >= 0 {
		first = strings.TrimSpace(s[:i])
	}
	st := "unknown"
	switch {
	case first == "unsat":
		st = "unsat"
	case first == "sat":
		st = "sat"
	case first == "timeout" || strings.Contains(first, "timeout") || cctx.Err() != nil:
		st = "timeout"
	case first == "unknown":
		st = "unknown"
	case strings.Contains(s, "error") || strings.Contains(s, "Error"):
		st = "error"
	}
	return solveResult{status: st, solver: sc.Name, ms: ms, out: truncate(s, 4000)}
}

// Discharge runs the solver portfolio on one obligation.
func Discharge(g *Gen, o *Oblig, dir string, timeoutS int) {
	file := filepath.Join(dir, sanitize(o.Name)+".smt2")
	smt := g.SMTFor(o)
	os.WriteFile(file, []byte(smt), 0o644)
	o.File = file
	definitive := func(r solveResult) bool { return r.status == "unsat" || r.status == "sat" }
	// stage 1: newest z3 alone, short
	quick := 3
	if timeoutS < quick {
		quick = timeoutS
	}
	r := runSolver(context.Background(), solvers[0], file, quick, false)
	var errs []string
	if !definitive(r) && !o.Cover {
		if r.status == "error" {
			errs = append(errs, r.solver+": "+r.out)
		}
		ctx, cancel := context.WithCancel(context.Background())
		ch := make(chan solveResult, len(solvers))
		for _, sc := range solvers {
			sc := sc
			go func() { ch <- runSolver(ctx, sc, file, timeoutS, false) }()
		}
		got := 0
		for got < len(solvers) {
			rr := <-ch
			got++
			if rr.status == "error" {
				errs = append(errs, rr.solver+": "+rr.out)
			}
			if definitive(rr) {
				r = rr
				break
			}
			if r.status == "error" || (rr.status != "error" && !definitive(r)) {
				r = rr
			}
		}
		cancel()
	}
	o.Status, o.Solver, o.Ms = r.status, r.solver, r.ms
	if r.status == "sat" {
		// fetch a model with the deciding solver
		mfile := strings.TrimSuffix(file, ".smt2") + ".model.smt2"
		os.WriteFile(mfile, []byte(smt+"(get-model)\n"), 0o644)
		for _, sc := range solvers {
			if sc.Name == r.solver {
				mr := runSolver(context.Background(), sc, mfile, timeoutS, true)
				o.Model = mr.out
			}
		}
	} else if r.status != "unsat" {
		o.Model = r.out
		if len(errs) > 0 {
			o.Model = strings.Join(errs, "\n")
		}
	}
	if o.Status != "unsat" && !o.Cover && len(o.WitTerms) > 0 {
		g.findWitness(o, dir, timeoutS)
	} else if o.Status != "unsat" && !o.Cover && o.ReplayTemplate != "" {
		// scenario replay: a fixed deterministic scenario run against the real code
		out, ok := replayTemplate(g.P.Repo, o.ReplayTemplate, o.ReplayPkgDir, map[string]string{})
		o.ReplayOut, o.WitnessConfirmed = out, ok
		o.Witness = "scenario " + o.ReplayTemplate
	}
}

// findWitness looks for concrete witness values for a failed obligation (dropping quantified axioms if
// the exact query has no model) and replays them on the real code through the contract's template.
func (g *Gen) findWitness(o *Oblig, dir string, timeoutS int) {
	var terms []string
	for _, w := range o.WitTerms {
		terms = append(terms, w[1])
	}
	gv := "(get-value (" + strings.Join(terms, " ") + "))\n"
	// For the search only: pin implementation-defined float->int conversions to what amd64 produces
	// (the "integer indefinite" value), so that the candidate is one this machine can reproduce.
	pin := ""
	for _, d := range g.decls {
		if strings.HasPrefix(d, "(declare-const fptoint_undef!") {
			f := strings.Fields(strings.Trim(d, "()"))
			name := f[1]
			switch {
			case strings.Contains(d, "(_ BitVec 64)") && g.fpUndefSigned[name]:
				pin += "(assert (= " + name + " #x8000000000000000))\n"
			case strings.Contains(d, "(_ BitVec 32)") && g.fpUndefSigned[name]:
				pin += "(assert (= " + name + " #x80000000))\n"
			case strings.Contains(d, "(_ BitVec 32)"):
				pin += "(assert (= " + name + " #x00000000))\n"
			}
		}
	}
	try := func(dropQuant bool) map[string]string {
		file := filepath.Join(dir, sanitize(o.Name)+fmt.Sprintf(".wit%v.smt2", dropQuant))
		q := g.SMTForOpts(o, dropQuant)
		q = strings.Replace(q, "(check-sat)\n", pin+"(check-sat)\n", 1)
		os.WriteFile(file, []byte(q+gv), 0o644)
		for _, sc := range solvers[:2] {
			r := runSolver(context.Background(), sc, file, timeoutS, true)
			if r.status == "sat" {
				vals := parseGetValue(r.out, len(terms))
				if len(vals) == len(terms) {
					m := map[string]string{}
					for i, w := range o.WitTerms {
						m[w[0]] = vals[i]
					}
					return m
				}
			}
		}
		return nil
	}
	var vals map[string]string
	if o.Status == "sat" {
		vals = try(false)
	}
	if vals == nil {
		vals = try(true)
	}
	if vals == nil {
		return
	}
	var parts []string
	for _, w := range o.WitTerms {
		parts = append(parts, w[0]+" = "+goLiteral(vals[w[0]]))
	}
	o.Witness = strings.Join(parts, "; ")
	if g.FC != nil && g.FC.Opts["replay"] != "" {
		pkgDir := strings.TrimPrefix(strings.TrimPrefix(g.FC.Pkg, modPath), "/")
		out, ok := replayTemplate(g.P.Repo, g.FC.Opts["replay"], pkgDir, vals)
		o.ReplayOut = out
		o.WitnessConfirmed = ok
	}
}

type retGroup struct{ subs []*Oblig }

// Tasks returns the solver tasks of this generator: one per plain obligation, one per return site
// for the ensures clauses (all clauses at that site in one query, refined per clause if it fails).
func (g *Gen) Tasks(dir string, timeoutS int) []func() {
	var ts []func()
	for _, o := range g.Obligs {
		o := o
		if len(o.Subs) > 0 {
			continue
		}
		if o.Pre != "" {
			o.Status, o.Solver = o.Pre, "dataflow"
			if o.Status != "unsat" && o.ReplayTemplate != "" {
				o := o
				ts = append(ts, func() {
					out, ok := replayTemplate(g.P.Repo, o.ReplayTemplate, o.ReplayPkgDir, map[string]string{})
					o.ReplayOut, o.WitnessConfirmed = out, ok
					o.Witness = "scenario " + o.ReplayTemplate
				})
			}
			continue
		}
		ts = append(ts, func() { Discharge(g, o, dir, timeoutS) })
	}
	for i, grp := range g.retGroups {
		i, grp := i, grp
		if len(grp.subs) == 0 {
			continue
		}
		ts = append(ts, func() {
			if len(grp.subs) == 1 {
				Discharge(g, grp.subs[0], dir, timeoutS)
				return
			}
			var goals []string
			for _, s := range grp.subs {
				goals = append(goals, s.Goal)
			}
			pkg, name := ContractName(g.Fn)
			conj := &Oblig{Name: fmt.Sprintf("%s.%s#ensures-all@ret%d", pkg[strings.LastIndex(pkg, "/")+1:], name, i), Kind: "ensures", Goal: and(goals...), NAsserts: grp.subs[0].NAsserts}
			Discharge(g, conj, dir, timeoutS)
			if conj.Status == "unsat" {
				for _, s := range grp.subs {
					s.Status, s.Solver, s.Ms = "unsat", conj.Solver, conj.Ms/len(grp.subs)
				}
				return
			}
			for _, s := range grp.subs {
				Discharge(g, s, dir, timeoutS)
			}
		})
	}
	return ts
}

// Finalize aggregates sub-goal results into their clause obligations.
func (g *Gen) Finalize() {
	for _, o := range g.Obligs {
		if len(o.Subs) == 0 {
			if o.Goal == "true" && o.Status == "" {
				o.Status, o.Solver = "unsat", "trivial"
			}
			continue
		}
		o.Status, o.Ms = "unsat", 0
		solv := map[string]bool{}
		for _, s := range o.Subs {
			o.Ms += s.Ms
			solv[s.Solver] = true
			if s.Status != "unsat" && o.Status == "unsat" {
				o.Status, o.Model, o.File = s.Status, s.Model, s.File
				o.FailedSub = s.Name
				o.Witness, o.WitnessConfirmed, o.ReplayOut = s.Witness, s.WitnessConfirmed, s.ReplayOut
			}
		}
		var names []string
		for k := range solv {
			names = append(names, k)
		}
		sort.Strings(names)
		o.Solver = strings.Join(names, "+")
	}
}

func RunTasks(ts []func(), par int) {
	var wg sync.WaitGroup
	sem := make(chan struct{}, par)
	for _, t := range ts {
		t := t
		wg.Add(1)
		sem <- struct{}{}
		go func() {
			defer wg.Done()
			defer func() { <-sem }()
			t()
		}()
	}
	wg.Wait()
}

func DischargeAll(g *Gen, dir string, timeoutS int, par int) {
	RunTasks(g.Tasks(dir, timeoutS), par)
	g.Finalize()
}

// ok reports whether the obligation is in its expected state.
func (o *Oblig) OK() bool {
	if o.Cover {
		return o.Status != "unsat"
	}
	return o.Status == "unsat"
}

// usesStr reports whether the query mentions string operations (the quantified string axioms are only added then).
func (g *Gen) usesStr(o *Oblig) bool {
	if strings.Contains(o.Goal, "gstr.") {
		return true
	}
	for _, d := range g.decls {
		if strings.Contains(d, "gstr.") {
			return true
		}
	}
	for i := 0; i < o.NAsserts && i < len(g.asserts); i++ {
		if strings.Contains(g.asserts[i], "gstr.") {
			return true
		}
	}
	return false
}
