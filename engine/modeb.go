package main

// Mode B: site obligations inside large functions, decided from the control cone (conditions and calls on
// the dominator-tree path to the site) and the data cone (defining equations of the SSA values involved).
// The hypothesis set is weaker than the true path condition, so a discharged obligation is sound; an
// undischarged one means "not guarded on every path as far as dominance can tell".
//
// Rules are written in contract files:
//   //@ gate NAME PROPS...: feature=compat.X ; site=call F [argN=Const] | alloc T | store T.f const A,B ; in=pkg,pkg ; except=func:reason,...
//   //@ checked NAME PROPS...: site=call F argN ; by=call G argM ; in=pkg ; except=...

import (
	"fmt"
	"go/ast"
	"go/constant"
	"go/token"
	"go/types"
	"sort"
	"strconv"
	"strings"

	"golang.org/x/tools/go/ssa"
)

type siteRule struct {
	Kind     string // gate | checked
	Name     string
	Props    []string
	Feature  string
	Sites    []string
	By       string
	In       []string
	Except   map[string]string
	Only     map[string]bool
	Scenario string
	Pkg      string
	Text     string
}

func parseSiteRule(d *Directive) (*siteRule, error) {
	j := strings.Index(d.Text, ":")
	if j < 0 {
		return nil, fmt.Errorf("%s rule needs 'name props: key=value ; ...'", d.Kind)
	}
	head := strings.Fields(d.Text[:j])
	r := &siteRule{Kind: d.Kind, Name: head[0], Props: head[1:], Except: map[string]string{}, Pkg: d.Pkg, Text: strings.TrimSpace(d.Text[j+1:])}
	for _, part := range strings.Split(d.Text[j+1:], ";") {
		part = strings.TrimSpace(part)
		if part == "" {
			continue
		}
		k := strings.Index(part, "=")
		if k < 0 {
			return nil, fmt.Errorf("bad rule part %q", part)
		}
		key, val := strings.TrimSpace(part[:k]), strings.TrimSpace(part[k+1:])
		switch key {
		case "feature":
			r.Feature = val
		case "site":
			for _, s := range strings.Split(val, "|") {
				r.Sites = append(r.Sites, strings.TrimSpace(s))
			}
		case "by":
			r.By = val
		case "in":
			for _, s := range strings.Split(val, ",") {
				r.In = append(r.In, strings.TrimSpace(s))
			}
		case "scenario":
			r.Scenario = val
		case "only":
			r.Only = map[string]bool{}
			for _, s := range strings.Split(val, ",") {
				r.Only[strings.TrimSpace(s)] = true
			}
		case "except":
			for _, s := range strings.Split(val, ",") {
				s = strings.TrimSpace(s)
				if s == "" {
					continue
				}
				kv := strings.SplitN(s, ":", 2)
				reason := ""
				if len(kv) == 2 {
					reason = kv[1]
				}
				r.Except[strings.TrimSpace(kv[0])] = strings.TrimSpace(reason)
			}
		default:
			return nil, fmt.Errorf("unknown rule key %q", key)
		}
	}
	return r, nil
}

// domFact is a fact that holds at a site because it sits on the dominator path.
type domFact struct {
	cond ssa.Value // branch condition
	neg  bool      // the site is on the false edge
	call *ssa.Call // a call that dominates the site
}

// domFacts collects branch conditions and calls dominating an instruction.
func domFacts(in ssa.Instruction) []domFact {
	var out []domFact
	b := in.Block()
	// calls earlier in the same block
	for _, x := range b.Instrs {
		if x == in {
			break
		}
		if c, ok := x.(*ssa.Call); ok {
			out = append(out, domFact{call: c})
		}
	}
	for cur := b; cur.Idom() != nil; cur = cur.Idom() {
		d := cur.Idom()
		for _, x := range d.Instrs {
			if c, ok := x.(*ssa.Call); ok {
				out = append(out, domFact{call: c})
			}
		}
		if iff, ok := d.Instrs[len(d.Instrs)-1].(*ssa.If); ok && len(d.Succs) == 2 && d.Succs[0] != d.Succs[1] {
			// cur is reached only through one successor of d if that successor dominates cur and the other does not
			t, e := d.Succs[0], d.Succs[1]
			tDom := t.Dominates(cur) && len(t.Preds) == 1
			eDom := e.Dominates(cur) && len(e.Preds) == 1
			if tDom && !eDom {
				out = append(out, domFact{cond: iff.Cond, neg: false})
			} else if eDom && !tDom {
				out = append(out, domFact{cond: iff.Cond, neg: true})
			}
		}
	}
	return out
}

// condImpliesSupported: does the branch fact imply that `feature` is supported (i.e. Has(feature) is false)?
func condImpliesSupported(p *Program, f domFact, feature *big64) bool {
	if f.cond == nil {
		return false
	}
	v := f.cond
	neg := f.neg
	for {
		if u, ok := v.(*ssa.UnOp); ok && u.Op == token.NOT {
			v = u.X
			neg = !neg
			continue
		}
		break
	}
	c, ok := v.(*ssa.Call)
	if !ok {
		return false
	}
	callee := c.Call.StaticCallee()
	if callee == nil || callee.Name() != "Has" || callee.Signature.Recv() == nil {
		return false
	}
	if !strings.HasSuffix(callee.Signature.Recv().Type().String(), "compat.JSFeature") && !strings.HasSuffix(callee.Signature.Recv().Type().String(), "compat.CSSFeature") {
		return false
	}
	// Has(features, mask): we need Has == false, i.e. neg
	if !neg {
		return false
	}
	// the set that is asked must be the EFFECTIVE unsupported-feature set: the similarly named override set / override
	// mask only say what the user overrode by hand, not what the target lacks
	if strings.Contains(valuePath(c.Call.Args[0]), "Overrides") {
		return false
	}
	mc, ok := c.Call.Args[1].(*ssa.Const)
	if !ok || mc.Value == nil {
		return false
	}
	mv, ok := constant.Uint64Val(constant.ToInt(mc.Value))
	if !ok {
		return false
	}
	return mv&feature.v == feature.v
}

type big64 struct{ v uint64 }

func lookupConstUint(p *Program, qualified string) (uint64, bool) {
	i := strings.LastIndex(qualified, ".")
	if i < 0 {
		return 0, false
	}
	pn, cn := qualified[:i], qualified[i+1:]
	for path, sp := range p.Pkgs {
		if sp.Pkg.Name() == pn && strings.HasPrefix(path, modPath) {
			if c, ok := sp.Pkg.Scope().Lookup(cn).(*types.Const); ok {
				v, ok := constant.Uint64Val(constant.ToInt(c.Val()))
				return v, ok
			}
		}
	}
	return 0, false
}

// siteMatches decides whether instruction in matches a site pattern; it returns a short description.
func siteMatches(p *Program, pat string, in ssa.Instruction) (string, bool) {
	f := strings.Fields(pat)
	if len(f) < 2 {
		return "", false
	}
	switch f[0] {
	case "dyncall":
		c, ok := in.(*ssa.Call)
		if !ok || c.Call.StaticCallee() != nil || c.Call.IsInvoke() {
			return "", false
		}
		if strings.HasSuffix(valuePath(c.Call.Value), "."+f[1]) || valuePath(c.Call.Value) == f[1] {
			return "call through " + f[1], true
		}
		return "", false
	case "send":
		// `send PATTERN`: a send on a channel whose access path matches
		sd, ok := in.(*ssa.Send)
		if !ok || !pathMatches(valuePath(sd.Chan), f[1]) {
			return "", false
		}
		return "send on " + valuePath(sd.Chan), true
	case "recv":
		// `recv PATTERN`: a receive from a channel whose access path matches
		u, ok := in.(*ssa.UnOp)
		if !ok || u.Op != token.ARROW || !pathMatches(valuePath(u.X), f[1]) {
			return "", false
		}
		return "receive from " + valuePath(u.X), true
	case "binop":
		// `binop PATTERN`: an arithmetic / comparison instruction whose access path matches (phi:count+1)
		bo, ok := in.(*ssa.BinOp)
		if !ok || !pathMatches(valuePath(bo), f[1]) {
			return "", false
		}
		return valuePath(bo), true
	case "invoke":
		// `invoke NAME`: a call of the interface method NAME (the receiver is not among the arguments)
		c, ok := in.(*ssa.Call)
		if !ok || !c.Call.IsInvoke() || c.Call.Method.Name() != f[1] {
			return "", false
		}
		return "call of interface method " + f[1], true
	case "closure-calling":
		// a closure created here whose body (or a closure nested in it) calls the named function
		mc, ok := in.(*ssa.MakeClosure)
		if !ok {
			return "", false
		}
		fn, _ := mc.Fn.(*ssa.Function)
		want := f[1]
		var calls func(f *ssa.Function) bool
		calls = func(f *ssa.Function) bool {
			if f == nil {
				return false
			}
			for _, b := range f.Blocks {
				for _, i2 := range b.Instrs {
					if c, ok := i2.(*ssa.Call); ok {
						if callee := c.Call.StaticCallee(); callee != nil && callee.Name() == want {
							return true
						}
					}
				}
			}
			for _, a := range f.AnonFuncs {
				if calls(a) {
					return true
				}
			}
			return false
		}
		if calls(fn) {
			return "closure calling " + want, true
		}
		return "", false
	case "call":
		c, ok := in.(*ssa.Call)
		if !ok {
			return "", false
		}
		callee := c.Call.StaticCallee()
		if callee == nil {
			return "", false
		}
		_, short := ContractName(callee)
		full := fullName(callee)
		if f[1] != short && f[1] != full && f[1] != callee.Name() {
			// a closure called through the local it was assigned to (`generateExport := func...`): by that name,
			// which does not shift when an unrelated closure is added
			if _, isClosure := c.Call.Value.(*ssa.MakeClosure); !isClosure || valuePath(c.Call.Value) != f[1] {
				return "", false
			}
		}
		for _, cond := range f[2:] {
			// argN=pkg.Const
			kv := strings.SplitN(cond, "=", 2)
			if len(kv) != 2 || !strings.HasPrefix(kv[0], "arg") {
				continue
			}
			var n int
			fmt.Sscanf(kv[0], "arg%d", &n)
			if n >= len(c.Call.Args) {
				return "", false
			}
			k, ok := c.Call.Args[n].(*ssa.Const)
			if !ok || k.Value == nil {
				return "", false
			}
			want, ok := lookupConstUint(p, kv[1])
			got, ok2 := constant.Uint64Val(constant.ToInt(k.Value))
			if !ok || !ok2 || want != got {
				return "", false
			}
		}
		return "call " + short, true
	case "returns":
		// `returns FUNCPATTERN`: a return statement of a function (or closure) whose name matches
		r, ok := in.(*ssa.Return)
		if !ok || len(r.Results) == 0 {
			return "", false
		}
		if fn := in.Parent(); fn != nil && pathMatches(fn.Name(), f[1]) {
			return "return in " + fn.Name(), true
		}
		return "", false
	case "builtin":
		// `builtin NAME`: a call of the builtin (append, copy, delete, ...)
		c, ok := in.(*ssa.Call)
		if !ok {
			return "", false
		}
		if b, ok := c.Call.Value.(*ssa.Builtin); ok && b.Name() == f[1] {
			return "call of builtin " + f[1], true
		}
		return "", false
	case "mapupdate":
		// `mapupdate PATTERN`: m[k] = v on a map whose access path matches
		mu, ok := in.(*ssa.MapUpdate)
		if !ok || !pathMatches(valuePath(mu.Map), f[1]) {
			return "", false
		}
		return valuePath(mu.Map) + "[" + valuePath(mu.Key) + "] = " + valuePath(mu.Value), true
	case "range":
		// `range PATTERN`: the start of a `for ... range X` over a map or string whose operand matches
		rg, ok := in.(*ssa.Range)
		if !ok || !pathMatches(valuePath(rg.X), f[1]) {
			return "", false
		}
		return "range over " + valuePath(rg.X), true
	case "lookup":
		// `lookup KEYPATTERN`: a map read whose key has a matching access path
		lk, ok := in.(*ssa.Lookup)
		if !ok {
			return "", false
		}
		if _, isMap := lk.X.Type().Underlying().(*types.Map); !isMap {
			return "", false
		}
		if !pathMatches(valuePath(lk.Index), f[1]) {
			return "", false
		}
		return "lookup of " + valuePath(lk.Index) + " in " + valuePath(lk.X), true
	case "load":
		// `load T.f`: a read of field f of a struct of named type T (by value or through a pointer)
		var st types.Type
		var idx int
		switch v := in.(type) {
		case *ssa.Field:
			st, idx = v.X.Type(), v.Field
		case *ssa.FieldAddr:
			read := false
			for _, r := range *v.Referrers() {
				if u, ok := r.(*ssa.UnOp); ok && u.Op == token.MUL {
					read = true
				}
			}
			if !read {
				return "", false
			}
			st, idx = v.X.Type().Underlying().(*types.Pointer).Elem(), v.Field
		default:
			return "", false
		}
		n, ok := st.(*types.Named)
		if !ok {
			return "", false
		}
		sty, ok := n.Underlying().(*types.Struct)
		if !ok {
			return "", false
		}
		if n.Obj().Name()+"."+sty.Field(idx).Name() != f[1] {
			return "", false
		}
		return "read of " + f[1], true
	case "alloc":
		a, ok := in.(*ssa.Alloc)
		if !ok {
			return "", false
		}
		et := a.Type().Underlying().(*types.Pointer).Elem()
		if n, ok := et.(*types.Named); ok && n.Obj().Name() == f[1] {
			return "new " + f[1], true
		}
	case "store":
		st, ok := in.(*ssa.Store)
		if !ok {
			return "", false
		}
		fa, ok := st.Addr.(*ssa.FieldAddr)
		if !ok {
			return "", false
		}
		pt := fa.X.Type().Underlying().(*types.Pointer)
		n, ok := pt.Elem().(*types.Named)
		if !ok {
			return "", false
		}
		target := n.Obj().Name() + "." + pt.Elem().Underlying().(*types.Struct).Field(fa.Field).Name()
		if target != f[1] && !(strings.HasPrefix(f[1], "*.") && strings.HasSuffix(target, f[1][1:])) {
			return "", false
		}
		if len(f) >= 4 && f[2] == "const" {
			k, ok := st.Val.(*ssa.Const)
			if !ok || k.Value == nil {
				return "", false
			}
			got, ok := constant.Uint64Val(constant.ToInt(k.Value))
			if !ok {
				return "", false
			}
			for _, cn := range strings.Split(f[3], ",") {
				if want, ok := lookupConstUint(p, cn); ok && want == got {
					return "store " + target + " = " + cn, true
				}
			}
			return "", false
		}
		return "store " + target, true
	}
	return "", false
}

// runSiteRules evaluates every gate/checked rule tagged with the property.
func runSiteRules(p *Program, id string) ([]*Gen, []string) {
	var gens []*Gen
	var errs []string
	for _, d := range p.CS.Dirs {
		if d.Kind != "gate" && d.Kind != "checked" {
			continue
		}
		r, err := parseSiteRule(d)
		if err != nil {
			errs = append(errs, "contracts: "+err.Error())
			continue
		}
		if !hasProp(r.Props, id) {
			continue
		}
		g := NewGen(p, nil, nil)
		g.Label = d.Kind + " " + r.Name
		var feature *big64
		if r.Kind == "gate" {
			v, ok := lookupConstUint(p, r.Feature)
			if !ok {
				errs = append(errs, "contract-stale: gate "+r.Name+": unknown feature "+r.Feature)
				continue
			}
			feature = &big64{v}
		}
		inPkg := map[string]bool{}
		for _, pk := range r.In {
			inPkg[pk] = true
		}
		var fns []*ssa.Function
		for fn := range p.AllFuncs {
			root := fn
			for root.Parent() != nil {
				root = root.Parent()
			}
			if root.Pkg == nil || !inPkg[root.Pkg.Pkg.Name()] || fn.Blocks == nil {
				continue
			}
			fns = append(fns, fn)
		}
		sort.Slice(fns, func(i, j int) bool { return fns[i].String() < fns[j].String() })
		count := map[string]int{}
		hits := 0
		usedExcept := map[string]bool{}
		for _, fn := range fns {
			_, cname := ContractName(fn)
			if r.Only != nil && !r.Only[cname] {
				continue
			}
			for _, b := range fn.Blocks {
				for _, in := range b.Instrs {
					for _, pat := range r.Sites {
						desc, ok := siteMatches(p, pat, in)
						if !ok {
							continue
						}
						hits++
						pkgShort := fn.Pkg
						short := "?"
						if pkgShort != nil {
							short = pkgShort.Pkg.Name()
						} else if fn.Parent() != nil {
							root := fn
							for root.Parent() != nil {
								root = root.Parent()
							}
							short = root.Pkg.Pkg.Name()
						}
						key := short + "." + cname
						count[key]++
						o := &Oblig{Name: fmt.Sprintf("%s#%s:%s.%d", key, r.Kind, r.Name, count[key]), Kind: r.Kind, Goal: "true", Fn: fn.String(),
							Pos: strings.TrimPrefix(p.Fset.Position(in.Pos()).String(), p.Repo+"/"), Text: r.Kind + " " + r.Name + ": " + desc + " — " + r.Text, AutoSite: true}
						if reason, ok := exceptFor(r, cname); ok {
							o.Pre = "unsat"
							o.Solver = "exempt"
							o.Text += " [exempt: " + reason + "]"
							usedExcept[cname] = true
							g.Assumptions["site rule "+r.Name+": "+key+" is exempt ("+reason+")"] = true
						} else if r.Kind == "gate" {
							ok := false
							for _, f := range domFacts(in) {
								if condImpliesSupported(p, f, feature) {
									ok = true
									break
								}
							}
							if ok {
								o.Pre = "unsat"
							} else {
								o.Pre = "sat"
								o.Model = "no dominating branch establishes !Has(" + r.Feature + ") at " + o.Pos
							}
						} else {
							ok, why := checkedBy(p, r, in, pat)
							if ok {
								o.Pre = "unsat"
							} else {
								o.Pre = "sat"
								o.Model = why + " at " + o.Pos
							}
						}
						if o.Pre != "unsat" && r.Scenario != "" {
							o.ReplayTemplate = r.Scenario
							o.ReplayPkgDir = strings.TrimPrefix(strings.TrimPrefix(r.Pkg, modPath), "/")
						}
						g.Obligs = append(g.Obligs, o)
					}
				}
			}
		}
		if hits == 0 {
			errs = append(errs, "contract-stale: "+r.Kind+" rule "+r.Name+" matches no site")
		}
		gens = append(gens, g)
	}
	return gens, errs
}

func exceptFor(r *siteRule, cname string) (string, bool) {
	for pat, reason := range r.Except {
		if pat == cname {
			return reason, true
		}
		if strings.HasSuffix(pat, "*") && strings.HasPrefix(strings.TrimLeft(cname, "(*"), "") {
			base := strings.TrimSuffix(pat, "*")
			// match on the bare function / method name
			bare := cname
			if i := strings.LastIndex(bare, ")."); i >= 0 {
				bare = bare[i+2:]
			}
			if strings.HasPrefix(bare, base) {
				return reason, true
			}
		}
	}
	return "", false
}

// checkedBy: the site's argument value has been passed to the checking function on the dominator path, or
// is harmless by construction (constants, concatenations of harmless parts, names of existing symbols).
func checkedBy(p *Program, r *siteRule, in ssa.Instruction, pat string) (bool, string) {
	c := in.(*ssa.Call)
	f := strings.Fields(pat)
	argN := -1
	for _, x := range f[2:] {
		if strings.HasPrefix(x, "arg") && !strings.Contains(x, "=") {
			fmt.Sscanf(x, "arg%d", &argN)
		}
	}
	if argN < 0 || argN >= len(c.Call.Args) {
		return false, "rule has no argN"
	}
	by := strings.Fields(r.By)
	if len(by) < 3 || by[0] != "call" {
		return false, "rule has no by=call G argM"
	}
	var byArg int
	fmt.Sscanf(by[2], "arg%d", &byArg)
	v := c.Call.Args[argN]
	facts := domFacts(in)
	var harmless func(v ssa.Value, depth int) bool
	harmless = func(v ssa.Value, depth int) bool {
		if depth > 6 {
			return false
		}
		switch x := v.(type) {
		case *ssa.Const:
			return true
		case *ssa.BinOp:
			if x.Op == token.ADD {
				return harmless(x.X, depth+1) && harmless(x.Y, depth+1)
			}
		case *ssa.Phi:
			for _, e := range x.Edges {
				if !harmless(e, depth+1) {
					return false
				}
			}
			return true
		case *ssa.Slice:
			return harmless(x.X, depth+1)
		case *ssa.Call:
			if callee := x.Call.StaticCallee(); callee != nil {
				switch callee.Name() {
				case "Sprintf", "NumberToMinifiedName", "GenerateNonUniqueNameFromPath", "Itoa":
					return true
				}
			}
		case *ssa.UnOp:
			// the name of an existing symbol (it was checked when that symbol was created)
			if fa, ok := x.X.(*ssa.FieldAddr); ok {
				st := fa.X.Type().Underlying().(*types.Pointer).Elem().Underlying().(*types.Struct)
				if st.Field(fa.Field).Name() == "OriginalName" {
					return true
				}
			}
		}
		for _, fct := range facts {
			if fct.call == nil {
				continue
			}
			callee := fct.call.Call.StaticCallee()
			if callee == nil || callee.Name() != by[1] {
				continue
			}
			if byArg < len(fct.call.Call.Args) && fct.call.Call.Args[byArg] == v {
				return true
			}
		}
		return false
	}
	if harmless(v, 0) {
		return true, ""
	}
	return false, "argument " + v.Name() + " is not passed to " + by[1] + " on the dominator path and is not a constant or derived name"
}

// ---------------------------------------------------------------------------------------
// Effect licences (F5): every call that has an effect on the outside world must be dominated by the
// branch facts that license it, both inside the closure it lives in and at the places where that closure
// is created (for goroutine bodies), and the captured cells those facts read must be initialised once,
// by the stated expression, before the closure is created.
//
//   //@ effect NAME PROPS...: site=call F | call G ; in=pkg ; root=Func ; guard=true:PATH,false:PATH ; spawn-guard=... ;
//   //@     cell=NAME:not-call:Method ; returns=false:PATH|after:call F|true:call G(argpath,argpath)
//
// PATH is a source-level access path (args.write, shouldWriteFiles, result.AbsPath) recovered from the SSA.

// valuePath renders an SSA value as a source-level access path when it has one.
func valuePath(v ssa.Value) string {
	switch x := v.(type) {
	case *ssa.Parameter:
		return x.Name()
	case *ssa.Builtin:
		return x.Name()
	case *ssa.FreeVar:
		return x.Name()
	case *ssa.Alloc:
		// a local that is assigned exactly once stands for the value assigned to it
		var stores []*ssa.Store
		for _, r := range *x.Referrers() {
			if st, ok := r.(*ssa.Store); ok && st.Addr == ssa.Value(x) {
				stores = append(stores, st)
			}
		}
		if len(stores) == 1 {
			if _, isParam := stores[0].Val.(*ssa.Parameter); !isParam {
				if _, isConst := stores[0].Val.(*ssa.Const); !isConst {
					if _, isCall := stores[0].Val.(*ssa.Call); !isCall {
						if _, isUn := stores[0].Val.(*ssa.UnOp); isUn && x.Comment != "" {
							if u := stores[0].Val.(*ssa.UnOp); u.Op == token.MUL {
								if _, fromIdx := u.X.(*ssa.IndexAddr); fromIdx {
									return valuePath(stores[0].Val)
								}
							}
						}
					}
				}
			}
		}
		return x.Comment
	case *ssa.Global:
		return x.Pkg.Pkg.Name() + "." + x.Name()
	case *ssa.UnOp:
		if x.Op == token.MUL {
			return valuePath(x.X)
		}
		if x.Op == token.NOT {
			return "!" + valuePath(x.X)
		}
	case *ssa.FieldAddr:
		st := x.X.Type().Underlying().(*types.Pointer).Elem().Underlying().(*types.Struct)
		return valuePath(x.X) + "." + st.Field(x.Field).Name()
	case *ssa.Field:
		st := x.X.Type().Underlying().(*types.Struct)
		return valuePath(x.X) + "." + st.Field(x.Field).Name()
	case *ssa.MakeMap, *ssa.MakeSlice, *ssa.MakeClosure:
		// a freshly made map/slice is known by the local it was assigned to
		if refs := v.Referrers(); refs != nil {
			for _, r := range *refs {
				if d, ok := r.(*ssa.DebugRef); ok && !d.IsAddr {
					if id, ok := d.Expr.(*ast.Ident); ok {
						return id.Name
					}
				}
			}
		}
	case *ssa.Lookup:
		return valuePath(x.X) + "[" + valuePath(x.Index) + "]"
	case *ssa.Next:
		if rg, ok := x.Iter.(*ssa.Range); ok {
			return "next(" + valuePath(rg.X) + ")"
		}
		return "next(?)"
	case *ssa.Extract:
		if ta, ok := x.Tuple.(*ssa.TypeAssert); ok && x.Index == 0 {
			return valuePath(ta)
		}
		return fmt.Sprintf("%s#%d", valuePath(x.Tuple), x.Index)
	case *ssa.Call:
		if callee := x.Call.StaticCallee(); callee != nil {
			var as []string
			for _, a := range x.Call.Args {
				as = append(as, valuePath(a))
			}
			return "call " + callee.Name() + "(" + strings.Join(as, ",") + ")"
		}
		if x.Call.IsInvoke() {
			as := []string{valuePath(x.Call.Value)}
			for _, a := range x.Call.Args {
				as = append(as, valuePath(a))
			}
			return "call " + x.Call.Method.Name() + "(" + strings.Join(as, ",") + ")"
		}
		var as []string
		for _, a := range x.Call.Args {
			as = append(as, valuePath(a))
		}
		return "call " + valuePath(x.Call.Value) + "(" + strings.Join(as, ",") + ")"
	case *ssa.MakeInterface:
		return valuePath(x.X)
	case *ssa.TypeAssert:
		// x.(T): the asserted type is not part of the path (x.(T), ok := … and x.(T) read the same object)
		return valuePath(x.X)
	case *ssa.ChangeType:
		return valuePath(x.X)
	case *ssa.Convert:
		return valuePath(x.X)
	case *ssa.Const:
		if x.Value == nil {
			return "nil"
		}
		if x.Value.Kind() == constant.String {
			// go/constant abbreviates long strings in String(); keep up to 400 bytes so that patterns can look inside
			if sv := constant.StringVal(x.Value); len(sv) > 60 && len(sv) <= 400 {
				return strconv.Quote(sv)
			}
		}
		return x.Value.String()
	case *ssa.Phi:
		if x.Comment != "" {
			return "phi:" + x.Comment
		}
	case *ssa.BinOp:
		return valuePath(x.X) + x.Op.String() + valuePath(x.Y)
	case *ssa.Slice:
		// the argument list of a variadic call: `new [n]T (varargs)` filled by constant-index stores
		if al, ok := x.X.(*ssa.Alloc); ok && al.Comment == "varargs" && x.Low == nil && x.High == nil {
			elems := map[int64]string{}
			max := int64(-1)
			for _, r := range *al.Referrers() {
				ia, ok := r.(*ssa.IndexAddr)
				if !ok {
					continue
				}
				k, ok := ia.Index.(*ssa.Const)
				if !ok || k.Value == nil {
					continue
				}
				for _, r2 := range *ia.Referrers() {
					if st, ok := r2.(*ssa.Store); ok && st.Addr == ssa.Value(ia) {
						elems[k.Int64()] = valuePath(st.Val)
						if k.Int64() > max {
							max = k.Int64()
						}
					}
				}
			}
			var parts []string
			for i := int64(0); i <= max; i++ {
				parts = append(parts, elems[i])
			}
			return "[" + strings.Join(parts, ",") + "]"
		}
		// an ordinary sub-slice x[lo:hi] of a value that has a path
		if base := valuePath(x.X); !strings.HasPrefix(base, "?") {
			return base + "[:]"
		}
	case *ssa.Index:
		return valuePath(x.X) + "[" + valuePath(x.Index) + "]"
	case *ssa.IndexAddr:
		return valuePath(x.X) + "[" + valuePath(x.Index) + "]"
	}
	return "?" + v.Name()
}

// factMatches: does the dominating fact establish `want` ("true:PATH" / "false:PATH")?
func factMatches(f domFact, want string) bool {
	if f.cond == nil {
		return false
	}
	pol := strings.HasPrefix(want, "true:")
	path := want[strings.Index(want, ":")+1:]
	v := f.cond
	neg := f.neg
	for {
		if u, ok := v.(*ssa.UnOp); ok && u.Op == token.NOT {
			v = u.X
			neg = !neg
			continue
		}
		break
	}
	got := valuePath(v)
	if !pathMatches(got, path) {
		// the ok result of `x.(T)`: also known as "x.(T)", so that a rule can name the case of a type switch
		typed := ""
		if ex, ok := v.(*ssa.Extract); ok && ex.Index == 1 {
			if ta, ok := ex.Tuple.(*ssa.TypeAssert); ok {
				t := ta.AssertedType
				if pt, ok := t.(*types.Pointer); ok {
					t = pt.Elem()
				}
				if n, ok := t.(*types.Named); ok {
					typed = valuePath(ta.X) + ".(" + n.Obj().Name() + ")"
				}
			}
		}
		if typed == "" || !pathMatches(typed, path) {
			return false
		}
	}
	return pol == !neg
}

func guardsHold(in ssa.Instruction, guards []string) (bool, string) {
	facts := domFacts(in)
	for _, gd := range guards {
		ok := false
		for _, f := range facts {
			if factMatches(f, gd) {
				ok = true
				break
			}
		}
		if !ok {
			return false, gd
		}
	}
	return true, ""
}

func splitList(s string, sep string) []string {
	var out []string
	for _, x := range strings.Split(s, sep) {
		if x = strings.TrimSpace(x); x != "" {
			out = append(out, x)
		}
	}
	return out
}

func runEffectRules(p *Program, id string) ([]*Gen, []string) {
	var gens []*Gen
	var errs []string
	for _, d := range p.CS.Dirs {
		if d.Kind != "effect" {
			continue
		}
		j := strings.Index(d.Text, ":")
		if j < 0 {
			errs = append(errs, "contracts: effect rule needs 'name props: ...'")
			continue
		}
		head := strings.Fields(d.Text[:j])
		if !hasProp(head[1:], id) {
			continue
		}
		name := head[0]
		kv := map[string]string{}
		for _, part := range strings.Split(d.Text[j+1:], ";") {
			part = strings.TrimSpace(part)
			if k := strings.Index(part, "="); k > 0 {
				kv[strings.TrimSpace(part[:k])] = strings.TrimSpace(part[k+1:])
			}
		}
		g := NewGen(p, nil, nil)
		g.Label = "effect " + name
		sp := (*ssa.Package)(nil)
		for path, x := range p.Pkgs {
			if x.Pkg.Name() == kv["in"] && strings.HasPrefix(path, modPath) {
				sp = x
			}
		}
		if sp == nil {
			errs = append(errs, "contract-stale: effect "+name+": package "+kv["in"]+" not loaded")
			continue
		}
		root := p.LookupFunc(sp.Pkg.Path(), kv["root"])
		if root == nil {
			errs = append(errs, "contract-stale: effect "+name+": root function "+kv["root"]+" not found")
			continue
		}
		var fns []*ssa.Function
		var collect func(f *ssa.Function)
		collect = func(f *ssa.Function) {
			fns = append(fns, f)
			for _, a := range f.AnonFuncs {
				collect(a)
			}
		}
		collect(root)
		short := sp.Pkg.Name()
		mk := func(kind string, n int, in ssa.Instruction, text string) *Oblig {
			pos := ""
			if in != nil {
				pos = strings.TrimPrefix(p.Fset.Position(in.Pos()).String(), p.Repo+"/")
			}
			o := &Oblig{Name: fmt.Sprintf("%s.%s#effect:%s.%s.%d", short, kv["root"], name, kind, n), Kind: "effect", Goal: "true", Pos: pos, Text: "effect " + name + ": " + text, AutoSite: true, Pre: "unsat",
				ReplayTemplate: kv["scenario"], ReplayPkgDir: strings.TrimPrefix(strings.TrimPrefix(d.Pkg, modPath), "/")}
			g.Obligs = append(g.Obligs, o)
			return o
		}
		fail := func(o *Oblig, why string) {
			o.Pre = "sat"
			o.Model = why
		}
		// spawn sites: where each anonymous function is created
		spawnOf := map[*ssa.Function]*ssa.MakeClosure{}
		for _, f := range fns {
			for _, b := range f.Blocks {
				for _, in := range b.Instrs {
					if mc, ok := in.(*ssa.MakeClosure); ok {
						if cf, ok := mc.Fn.(*ssa.Function); ok {
							spawnOf[cf] = mc
						}
					}
				}
			}
		}
		guards := splitList(kv["guard"], ",")
		spawnGuards := splitList(kv["spawn-guard"], ",")
		nsite := 0
		siteFns := map[*ssa.Function]bool{}
		for _, f := range fns {
			for _, b := range f.Blocks {
				for _, in := range b.Instrs {
					for _, pat := range splitList(kv["site"], "|") {
						desc, ok := siteMatches(p, pat, in)
						if !ok {
							continue
						}
						nsite++
						siteFns[f] = true
						o := mk("guard", nsite, in, desc+" requires "+kv["guard"]+" in its function and "+kv["spawn-guard"]+" where the function is created")
						if ok, miss := guardsHold(in, guards); !ok {
							fail(o, "not dominated by "+miss)
							continue
						}
						// climb to the creation sites
						cur := f
						var need []string
						need = append(need, spawnGuards...)
						for cur != root && len(need) > 0 {
							mc := spawnOf[cur]
							if mc == nil {
								fail(o, "creation site of "+cur.Name()+" not found")
								break
							}
							facts := domFacts(mc)
							var rest []string
							for _, gd := range need {
								found := false
								for _, fct := range facts {
									if factMatches(fct, gd) {
										found = true
									}
								}
								if !found {
									rest = append(rest, gd)
								}
							}
							need = rest
							cur = mc.Parent()
						}
						if cur == root && len(need) > 0 && f != root {
							fail(o, "creation sites are not dominated by "+strings.Join(need, ", "))
						} else if f == root && len(spawnGuards) > 0 {
							if ok, miss := guardsHold(in, spawnGuards); !ok {
								fail(o, "not dominated by "+miss)
							}
						}
					}
				}
			}
		}
		if nsite == 0 {
			errs = append(errs, "contract-stale: effect rule "+name+" matches no site")
		}
		// captured cell initialised once by the stated expression, before the closures are created
		if cell := kv["cell"]; cell != "" {
			parts := strings.SplitN(cell, ":", 2)
			var alloc *ssa.Alloc
			for _, f := range fns {
				for _, b := range f.Blocks {
					for _, in := range b.Instrs {
						if a, ok := in.(*ssa.Alloc); ok && a.Comment == parts[0] {
							alloc = a
						}
					}
				}
			}
			o := mk("cell", 1, alloc, "cell "+parts[0]+" has a single store of "+parts[1]+" that dominates every closure capturing it")
			if alloc == nil {
				fail(o, "cell not found (the variable is no longer captured by reference)")
			} else {
				var stores []*ssa.Store
				var closures []*ssa.MakeClosure
				for _, r := range *alloc.Referrers() {
					switch r := r.(type) {
					case *ssa.Store:
						if r.Addr == ssa.Value(alloc) {
							stores = append(stores, r)
						}
					case *ssa.MakeClosure:
						closures = append(closures, r)
					}
				}
				if len(stores) != 1 {
					fail(o, fmt.Sprintf("%d stores to the cell", len(stores)))
				} else if got := valuePath(stores[0].Val); !strings.HasPrefix(got, parts[1]) {
					fail(o, "the cell is initialised with "+got)
				} else {
					for _, mc := range closures {
						if !(stores[0].Block() == mc.Block() && instrBefore(stores[0], mc)) && !(stores[0].Block() != mc.Block() && stores[0].Block().Dominates(mc.Block())) {
							fail(o, "the store does not dominate a closure creation")
						}
					}
					// stores inside closures (through the free variable)
					for _, f := range fns {
						for _, b := range f.Blocks {
							for _, in := range b.Instrs {
								if st, ok := in.(*ssa.Store); ok {
									if fv, ok := st.Addr.(*ssa.FreeVar); ok && fv.Name() == parts[0] {
										fail(o, "a closure writes the cell")
									}
								}
							}
						}
					}
				}
			}
		}
		// every return of a function containing a site is licensed
		if rs := kv["returns"]; rs != "" {
			alts := splitList(rs, "|")
			n := 0
			for f := range siteFns {
				for _, b := range f.Blocks {
					if b == f.Recover {
						continue // reached only through a recovered panic
					}
					for _, in := range b.Instrs {
						ret, ok := in.(*ssa.Return)
						if !ok {
							continue
						}
						n++
						o := mk("return", n, ret, "a return of the effect's function is reached only as licensed: "+rs)
						facts := domFacts(ret)
						okAny := false
						for _, alt := range alts {
							if strings.HasPrefix(alt, "after:") {
								pat := strings.TrimPrefix(alt, "after:")
								for _, fct := range facts {
									if fct.call != nil {
										if _, m := siteMatches(p, pat, fct.call); m {
											okAny = true
										}
									}
								}
							} else {
								for _, fct := range facts {
									if factMatches(fct, alt) {
										okAny = true
									}
								}
							}
						}
						if !okAny {
							fail(o, "return at "+o.Pos+" is not covered by any of: "+rs)
						}
					}
				}
			}
		}
		gens = append(gens, g)
	}
	return gens, errs
}

func instrBefore(a, b ssa.Instruction) bool {
	for _, in := range a.Block().Instrs {
		if in == a {
			return true
		}
		if in == b {
			return false
		}
	}
	return false
}
