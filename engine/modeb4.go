package main

// Cache-key completeness (F3 applied to memoisation): a value cached under a key may depend on an input
// only THROUGH the key. For a function that builds a key K from a parameter P and then computes the cached
// value, every use of P must be a field read whose value is stored directly into a field of a K value; any
// other use of P (reading a field into the computation, passing P on, capturing it in a closure) lets the
// cached value depend on something the key does not distinguish.
//
//	//@ keyed NAME PROPS...: func=F ; in=pkg ; param=P ; key=K

import (
	"fmt"
	"go/constant"
	"go/types"
	"os"
	"sort"
	"strings"

	"golang.org/x/tools/go/ssa"
)

func runKeyedRules(p *Program, id string) ([]*Gen, []string) {
	var gens []*Gen
	var errs []string
	for _, d := range p.CS.Dirs {
		if d.Kind != "keyed" {
			continue
		}
		j := strings.Index(d.Text, ":")
		if j < 0 {
			continue
		}
		head := strings.Fields(d.Text[:j])
		if len(head) == 0 || !hasProp(head[1:], id) {
			continue
		}
		name := head[0]
		kv := map[string]string{}
		for _, part := range strings.Split(d.Text[j+1:], ";") {
			part = strings.TrimSpace(part)
			if k := strings.Index(part, "="); k > 0 {
				kv[strings.TrimSpace(part[:k])] = strings.TrimSpace(part[k+1:])
			}
		}
		var sp *ssa.Package
		for path, x := range p.Pkgs {
			if x.Pkg.Name() == kv["in"] && strings.HasPrefix(path, modPath) {
				sp = x
			}
		}
		if sp == nil {
			errs = append(errs, "contract-stale: keyed "+name+": package not loaded")
			continue
		}
		fn := p.LookupFunc(sp.Pkg.Path(), kv["func"])
		if fn == nil {
			errs = append(errs, "contract-stale: keyed "+name+": function "+kv["func"]+" not found")
			continue
		}
		var param *ssa.Parameter
		for _, pr := range fn.Params {
			if pr.Name() == kv["param"] {
				param = pr
			}
		}
		if param == nil {
			errs = append(errs, "contract-stale: keyed "+name+": parameter "+kv["param"]+" not found")
			continue
		}
		g := NewGen(p, nil, nil)
		g.Label = "keyed " + name
		n := 0
		isKeyField := func(addr ssa.Value) bool {
			fa, ok := addr.(*ssa.FieldAddr)
			if !ok {
				return false
			}
			pt, ok := fa.X.Type().Underlying().(*types.Pointer)
			if !ok {
				return false
			}
			nt, ok := pt.Elem().(*types.Named)
			return ok && nt.Obj().Name() == kv["key"]
		}
		add := func(in ssa.Instruction, bad string) {
			n++
			o := &Oblig{Name: fmt.Sprintf("%s.%s#keyed:%s.%d", kv["in"], kv["func"], name, n), Kind: "keyed", Goal: "true", Pre: "unsat", AutoSite: true,
				Pos:  strings.TrimPrefix(p.Fset.Position(in.Pos()).String(), p.Repo+"/"),
				Text: "keyed " + name + ": use of " + kv["param"] + " — " + strings.TrimSpace(d.Text[j+1:])}
			if bad != "" {
				o.Pre = "sat"
				o.Model = bad
				o.ReplayTemplate = kv["scenario"]
				o.ReplayPkgDir = strings.TrimPrefix(strings.TrimPrefix(d.Pkg, modPath), "/")
			}
			g.Obligs = append(g.Obligs, o)
		}
		keyStores := 0
		for _, ref := range *param.Referrers() {
			switch r := ref.(type) {
			case *ssa.DebugRef:
				continue
			case *ssa.FieldAddr:
				fieldName := valuePath(r)
				for _, ref2 := range *r.Referrers() {
					ld, ok := ref2.(*ssa.UnOp)
					if !ok {
						if _, isDbg := ref2.(*ssa.DebugRef); isDbg {
							continue
						}
						add(ref2.(ssa.Instruction), "the address of "+fieldName+" is used other than to read it")
						continue
					}
					for _, ref3 := range *ld.Referrers() {
						switch u := ref3.(type) {
						case *ssa.DebugRef:
						case *ssa.Store:
							if u.Val == ld && isKeyField(u.Addr) {
								keyStores++
								add(u, "")
							} else {
								add(u, fieldName+" is stored into "+valuePath(u.Addr)+", which is not a field of the key "+kv["key"])
							}
						default:
							add(ref3, fieldName+" is read into the computation ("+ref3.String()+") without being part of the key "+kv["key"])
						}
					}
				}
			default:
				add(ref, kv["param"]+" itself is used by "+ref.String()+" (only reads of its fields into the key "+kv["key"]+" are allowed)")
			}
		}
		if keyStores == 0 {
			errs = append(errs, "contract-stale: keyed rule "+name+" finds no store of a "+kv["param"]+" field into a "+kv["key"])
		}
		gens = append(gens, g)
	}
	return gens, errs
}

// Guarded sites: a site may only be reached under ALL of the listed branch conditions (dominance over go/ssa).
//
//	//@ guarded NAME PROPS...: func=F ; in=pkg ; site=SITE ; require=true:PATH && false:PATH ; scenario=T
//
// SITE may also be `return N PATTERN` (a return whose N-th result has an access path matching PATTERN) or
// `assign NAME PATTERN` (an assignment to the local / named result NAME of a value matching PATTERN).
func runGuardedRules(p *Program, id string) ([]*Gen, []string) {
	var gens []*Gen
	var errs []string
	for _, d := range p.CS.Dirs {
		if d.Kind != "guarded" {
			continue
		}
		j := strings.Index(d.Text, ":")
		if j < 0 {
			continue
		}
		head := strings.Fields(d.Text[:j])
		if len(head) == 0 || !hasProp(head[1:], id) {
			continue
		}
		name := head[0]
		kv := map[string]string{}
		for _, part := range strings.Split(d.Text[j+1:], ";") {
			part = strings.TrimSpace(part)
			if k := strings.Index(part, "="); k > 0 {
				kv[strings.TrimSpace(part[:k])] = strings.TrimSpace(part[k+1:])
			}
		}
		var sp *ssa.Package
		for path, x := range p.Pkgs {
			if x.Pkg.Name() == kv["in"] && strings.HasPrefix(path, modPath) {
				sp = x
			}
		}
		if sp == nil {
			errs = append(errs, "contract-stale: guarded "+name+": package not loaded")
			continue
		}
		g := NewGen(p, nil, nil)
		g.Label = "guarded " + name
		var fns []*ssa.Function
		var collect func(f *ssa.Function)
		collect = func(f *ssa.Function) {
			fns = append(fns, f)
			for _, a := range f.AnonFuncs {
				collect(a)
			}
		}
		if kv["func"] == "*" {
			// every function and method of the package (sorted for stable obligation names)
			var all []*ssa.Function
			for f := range p.AllFuncs {
				if f.Pkg == sp && f.Parent() == nil && f.Blocks != nil && f.Synthetic == "" {
					all = append(all, f)
				}
			}
			sort.Slice(all, func(i, j int) bool { return fullName(all[i]) < fullName(all[j]) })
			for _, f := range all {
				collect(f)
			}
		} else {
			fn := p.LookupFunc(sp.Pkg.Path(), kv["func"])
			if fn == nil {
				errs = append(errs, "contract-stale: guarded "+name+": function "+kv["func"]+" not found")
				continue
			}
			collect(fn)
		}
		n := 0
		perFn := map[string]int{}
		guards := splitList(kv["require"], "&&")
		for _, f := range fns {
			for _, b := range f.Blocks {
				for _, in := range b.Instrs {
					desc, ok := "", false
					if sf := strings.Fields(kv["site"]); len(sf) == 3 && sf[0] == "return" {
						if ret, isRet := in.(*ssa.Return); isRet {
							var k int
							fmt.Sscanf(sf[1], "%d", &k)
							if k < len(ret.Results) && pathMatches(valuePath(ret.Results[k]), sf[2]) {
								desc, ok = "return of "+valuePath(ret.Results[k]), true
							}
						}
					} else if sf := strings.Fields(kv["site"]); len(sf) == 2 && sf[0] == "convert" {
						// `convert PATTERN`: a type conversion (e.g. []byte(s)) of a value matching PATTERN
						if cv, isCv := in.(*ssa.Convert); isCv && pathMatches(valuePath(cv.X), sf[1]) {
							desc, ok = "conversion of "+valuePath(cv.X), true
						}
					} else if sf := strings.Fields(kv["site"]); len(sf) == 3 && sf[0] == "assign" {
						// `assign NAME PATTERN`: an assignment to the local or named result NAME of a value matching PATTERN
						if st, isSt := in.(*ssa.Store); isSt {
							if al, isAl := st.Addr.(*ssa.Alloc); isAl && al.Comment == sf[1] && pathMatches(valuePath(st.Val), sf[2]) {
								desc, ok = sf[1]+" = "+valuePath(st.Val), true
							}
						}
					} else {
						desc, ok = siteMatches(p, kv["site"], in)
					}
					if !ok {
						continue
					}
					if w := kv["when"]; w != "" {
						// `when=PATTERN`: only stores whose stored value matches (e.g. the constant true)
						st, isSt := in.(*ssa.Store)
						if !isSt || !pathMatches(valuePath(st.Val), w) {
							continue
						}
					}
					if wa := kv["when-arg"]; wa != "" {
						// only calls whose N-th argument has this shape (when-arg=N:PATTERN)
						parts := strings.SplitN(wa, ":", 2)
						var an int
						fmt.Sscanf(parts[0], "%d", &an)
						c, isCall := in.(*ssa.Call)
						if !isCall || len(parts) != 2 || an >= len(c.Call.Args) || !pathMatches(valuePath(c.Call.Args[an]), parts[1]) {
							continue
						}
					}
					if ou := kv["only-under"]; ou != "" {
						// `only-under=FACT`: the rule speaks about the sites inside that branch only
						under := false
						for _, fct := range domFacts(in) {
							if factMatches(fct, ou) {
								under = true
							}
						}
						if !under {
							continue
						}
					}
					n++
					oname := fmt.Sprintf("%s.%s#guarded:%s.%d", kv["in"], kv["func"], name, n)
					if kv["func"] == "*" {
						top := f
						for top.Parent() != nil {
							top = top.Parent()
						}
						_, short := ContractName(top)
						perFn[short]++
						oname = fmt.Sprintf("%s.%s#guarded:%s.%d", kv["in"], short, name, perFn[short])
					}
					o := &Oblig{Name: oname, Kind: "guarded", Goal: "true", Pre: "unsat", AutoSite: true,
						Pos:  strings.TrimPrefix(p.Fset.Position(in.Pos()).String(), p.Repo+"/"),
						Text: "guarded " + name + ": " + desc + " — " + strings.TrimSpace(d.Text[j+1:])}
					holds, missing := guardsHold(in, guards)
					if ra := kv["require-any"]; ra != "" {
						// `require-any=A && B || C`: on EVERY edge into the site's block one alternative (a conjunction of
						// branch facts) must hold; this is how a short-circuit `a || b` guard is checked
						holds, missing = true, ""
						b := in.Block()
						if len(b.Preds) == 0 {
							// the entry block: nothing has been tested yet
							holds, missing = false, "any of ("+ra+"): the site is in the function's entry block, before any test"
						}
						for _, pred := range b.Preds {
							var facts []domFact
							if len(pred.Instrs) > 0 {
								facts = domFacts(pred.Instrs[len(pred.Instrs)-1])
								if iff, ok := pred.Instrs[len(pred.Instrs)-1].(*ssa.If); ok && len(pred.Succs) == 2 && pred.Succs[0] != pred.Succs[1] {
									facts = append(facts, domFact{cond: iff.Cond, neg: pred.Succs[1] == b})
								}
							}
							okEdge := false
							for _, alt := range strings.Split(ra, "||") {
								all := true
								for _, gd := range splitList(alt, "&&") {
									one := false
									for _, f := range facts {
										if factMatches(f, gd) {
											one = true
										}
									}
									if !one {
										all = false
									}
								}
								if all {
									okEdge = true
								}
							}
							if !okEdge {
								holds, missing = false, "any of ("+ra+") on the edge from block "+fmt.Sprint(pred.Index)
							}
						}
					}
					if names := kv["carried-only-by-innermost-loop"]; names != "" && holds {
						// `carried-only-by-innermost-loop=A,B`: of the loops around the site only the innermost one carries the
						// variable from iteration to iteration; an outer loop starts each of its iterations with a fresh value
						// (per-item decoder state that must not leak from one item to the next)
						for _, nm := range splitList(names, ",") {
							count := 0
							for h := in.Block(); h != nil; h = h.Idom() {
								isHeader := false
								for _, pr := range h.Preds {
									if h.Dominates(pr) {
										isHeader = true
									}
								}
								if !isHeader {
									continue
								}
								for _, x := range h.Instrs {
									if ph, ok := x.(*ssa.Phi); ok && ph.Comment == nm {
										count++
									}
								}
							}
							if count > 1 {
								holds, missing = false, "`"+nm+"` to start afresh in every iteration of the outer loop (an outer loop header carries it over as well)"
							}
						}
					}
					if ps := kv["preceded-by-send"]; ps != "" && holds {
						// `preceded-by-send=PATTERN`: a (possibly conditional) send on a matching channel lies between the site's
						// immediate dominator and the site: in the site's block before it, or in a block that the immediate
						// dominator dominates and from which the site's block is reached
						found := false
						for _, x := range in.Block().Instrs {
							if x == in {
								break
							}
							if _, ok := siteMatches(p, "send "+ps, x); ok {
								found = true
							}
						}
						if id := in.Block().Idom(); id != nil && !found {
							for _, d := range in.Parent().Blocks {
								if d == in.Block() || !id.Dominates(d) {
									continue
								}
								reaches := false
								for _, sx := range d.Succs {
									if sx == in.Block() {
										reaches = true
									}
								}
								if !reaches {
									continue
								}
								for _, x := range d.Instrs {
									if _, ok := siteMatches(p, "send "+ps, x); ok {
										found = true
									}
								}
							}
						}
						if !found {
							holds, missing = false, "a send on "+ps+" just before the site"
						}
					}
					if kv["forbid-go"] != "" && holds {
						// `forbid-go=1`: the site runs on the goroutine of the function under contract - neither its closure nor an
						// enclosing closure is started with `go` (the function has done this work when it returns)
						for fn := in.Parent(); fn != nil && fn.Parent() != nil; fn = fn.Parent() {
							for _, pb := range fn.Parent().Blocks {
								for _, pi := range pb.Instrs {
									if g, ok := pi.(*ssa.Go); ok {
										if mc, ok := g.Call.Value.(*ssa.MakeClosure); ok && mc.Fn == ssa.Value(fn) {
											holds, missing = false, "execution on the caller's goroutine: the closure containing the site is started with `go`, so the function returns before this has happened"
										}
									}
								}
							}
						}
					}
					if kv["exhaustive-loop"] != "" && holds {
						// `exhaustive-loop=1`: the innermost loop around the site is left only when its header says it is
						// exhausted - no break, return or goto out of its body (every item gets the treatment at the site)
						if why := loopHasEarlyExit(in); why != "" {
							holds, missing = false, why
						}
					}
					if nb := kv["no-call-since-guards"]; nb != "" && holds {
						// `no-call-since-guards=NAME`: check-then-act is atomic - between the evaluation of each required guard
						// and the site there is no call of NAME (e.g. Unlock: the guard was read under the lock the site still holds)
						for _, gd := range guards {
							for _, fct := range domFacts(in) {
								if fct.cond == nil || !factMatches(fct, gd) {
									continue
								}
								ci, ok := fct.cond.(ssa.Instruction)
								if !ok {
									continue
								}
								if where := callBetween(ci, in, nb); where != "" {
									holds, missing = false, "no call of "+nb+" between the test "+gd+" and the site (there is one at "+where+": the tested state may have changed)"
								}
							}
						}
					}
					if pc := kv["preceded-by-call"]; pc != "" && holds {
						// `preceded-by-call=F`: a call of F comes before the site, in its block or in a block that dominates it
						found := false
						for _, x := range in.Block().Instrs {
							if x == in {
								break
							}
							if _, ok := siteMatches(p, "call "+pc, x); ok {
								found = true
							}
						}
						for _, d := range in.Parent().Blocks {
							if found || d == in.Block() || !d.Dominates(in.Block()) {
								continue
							}
							for _, x := range d.Instrs {
								if _, ok := siteMatches(p, "call "+pc, x); ok {
									found = true
								}
							}
						}
						if !found {
							holds, missing = false, "a preceding call of "+pc
						}
					}
					if fb := kv["forbid"]; fb != "" && holds {
						// `forbid=FACT`: the site must not be decided by that condition
						for _, fct := range domFacts(in) {
							if fct.cond != nil && factMatches(fct, fb) {
								holds, missing = false, "a decision other than "+fb+" (the site depends on exactly that)"
							}
						}
					}
					if ao := kv["allow-only"]; ao != "" && holds {
						// `allow-only=A && B`: no branch condition other than these may stand between the function entry
						// and the site (nothing else may exempt an item from the treatment at the site)
						for _, fct := range domFacts(in) {
							if fct.cond == nil {
								continue
							}
							okF := false
							for _, gd := range splitList(ao, "&&") {
								if factMatches(fct, gd) {
									okF = true
								}
							}
							if !okF {
								pol := "true"
								if fct.neg {
									pol = "false"
								}
								holds, missing = false, "only the allowed conditions: it also depends on "+pol+":"+valuePath(fct.cond)
							}
						}
					}
					if ao := kv["allow-only"]; ao != "" && holds && kv["control"] != "" {
						// control=1: also the conditions the site is control-dependent on without being dominated by them (one arm
						// of a short-circuit `a && b` that skips the site) must be among the allowed ones
						for _, cv := range controlConds(in) {
							if os.Getenv("GOVC_DEBUG") != "" {
								fmt.Println("controlCond:", valuePath(cv))
							}
							okF := false
							for _, gd := range splitList(ao, "&&") {
								gd = strings.TrimPrefix(strings.TrimPrefix(gd, "true:"), "false:")
								if pathMatches(valuePath(cv), gd) {
									okF = true
								}
							}
							if !okF {
								holds, missing = false, "only the allowed conditions: whether it is reached also depends on "+valuePath(cv)
							}
						}
					}
					if !holds {
						var have []string
						for _, fct := range domFacts(in) {
							if fct.cond != nil {
								pol := "true"
								if fct.neg {
									pol = "false"
								}
								have = append(have, pol+":"+valuePath(fct.cond))
							}
						}
						o.Pre = "sat"
						o.Model = "the site is not dominated by " + missing + " (dominating conditions: " + strings.Join(have, " ; ") + ")"
						o.ReplayTemplate = kv["scenario"]
						o.ReplayPkgDir = strings.TrimPrefix(strings.TrimPrefix(d.Pkg, modPath), "/")
					}
					g.Obligs = append(g.Obligs, o)
				}
			}
		}
		if n == 0 {
			errs = append(errs, "contract-stale: guarded rule "+name+" matches no site")
		}
		gens = append(gens, g)
	}
	return gens, errs
}

// Paired hand-offs: a function (or closure) that hands a result to channel A must also contain the hand-off to
// channel B that the receiver waits for (e.g. every path that reports a parse result also releases the waiter for
// an injected file). Syntactic per function body: each body that has a `site` send must have a `with` send.
//
//	//@ paired NAME PROPS...: func=F ; in=pkg ; site=send PATTERN ; with=send PATTERN
func runPairedRules(p *Program, id string) ([]*Gen, []string) {
	var gens []*Gen
	var errs []string
	for _, d := range p.CS.Dirs {
		if d.Kind != "paired" {
			continue
		}
		j := strings.Index(d.Text, ":")
		if j < 0 {
			continue
		}
		head := strings.Fields(d.Text[:j])
		if len(head) == 0 || !hasProp(head[1:], id) {
			continue
		}
		name := head[0]
		kv := map[string]string{}
		for _, part := range strings.Split(d.Text[j+1:], ";") {
			part = strings.TrimSpace(part)
			if k := strings.Index(part, "="); k > 0 {
				kv[strings.TrimSpace(part[:k])] = strings.TrimSpace(part[k+1:])
			}
		}
		var sp *ssa.Package
		for path, x := range p.Pkgs {
			if x.Pkg.Name() == kv["in"] && strings.HasPrefix(path, modPath) {
				sp = x
			}
		}
		if sp == nil {
			errs = append(errs, "contract-stale: paired "+name+": package not loaded")
			continue
		}
		fn := p.LookupFunc(sp.Pkg.Path(), kv["func"])
		if fn == nil {
			errs = append(errs, "contract-stale: paired "+name+": function "+kv["func"]+" not found")
			continue
		}
		sendMatches := func(in ssa.Instruction, pat string) bool {
			f := strings.Fields(pat)
			if len(f) != 2 || f[0] != "send" {
				return false
			}
			s, ok := in.(*ssa.Send)
			return ok && pathMatches(valuePath(s.Chan), f[1])
		}
		g := NewGen(p, nil, nil)
		g.Label = "paired " + name
		var fns []*ssa.Function
		var collect func(f *ssa.Function)
		collect = func(f *ssa.Function) {
			fns = append(fns, f)
			for _, a := range f.AnonFuncs {
				collect(a)
			}
		}
		collect(fn)
		n := 0
		for _, f := range fns {
			var first ssa.Instruction
			hasWith := false
			for _, b := range f.Blocks {
				for _, in := range b.Instrs {
					if first == nil && sendMatches(in, kv["site"]) {
						first = in
					}
					if sendMatches(in, kv["with"]) {
						hasWith = true
					}
				}
			}
			if first == nil {
				continue
			}
			n++
			_, short := ContractName(f)
			o := &Oblig{Name: fmt.Sprintf("%s.%s#paired:%s", kv["in"], short, name), Kind: "paired", Goal: "true", Pre: "unsat", AutoSite: true,
				Pos:  strings.TrimPrefix(p.Fset.Position(first.Pos()).String(), p.Repo+"/"),
				Text: "paired " + name + ": " + strings.TrimSpace(d.Text[j+1:])}
			if !hasWith {
				o.Pre = "sat"
				o.Model = short + " sends on " + strings.Fields(kv["site"])[1] + " but never on " + strings.Fields(kv["with"])[1]
			}
			g.Obligs = append(g.Obligs, o)
		}
		if n == 0 {
			errs = append(errs, "contract-stale: paired rule "+name+" matches no site")
		}
		gens = append(gens, g)
	}
	return gens, errs
}

// Decision coverage: a classification that is recorded at a site (e.g. "this function is empty, calls to it may be
// dropped") must have LOOKED at every field that can make it wrong. Each listed field must occur in the backward
// data cone of at least one branch condition that dominates the site.
//
//	//@ decides NAME PROPS...: func=F ; in=pkg ; site=SITE ; when=PATTERN ; must=T.f,T.g ; scenario=T
func runDecidesRules(p *Program, id string) ([]*Gen, []string) {
	var gens []*Gen
	var errs []string
	coneThroughCallees = true
	defer func() { coneThroughCallees = false }()
	for _, d := range p.CS.Dirs {
		if d.Kind != "decides" {
			continue
		}
		j := strings.Index(d.Text, ":")
		if j < 0 {
			continue
		}
		head := strings.Fields(d.Text[:j])
		if len(head) == 0 || !hasProp(head[1:], id) {
			continue
		}
		name := head[0]
		kv := map[string]string{}
		for _, part := range strings.Split(d.Text[j+1:], ";") {
			part = strings.TrimSpace(part)
			if k := strings.Index(part, "="); k > 0 {
				kv[strings.TrimSpace(part[:k])] = strings.TrimSpace(part[k+1:])
			}
		}
		var sp *ssa.Package
		for path, x := range p.Pkgs {
			if x.Pkg.Name() == kv["in"] && strings.HasPrefix(path, modPath) {
				sp = x
			}
		}
		if sp == nil {
			errs = append(errs, "contract-stale: decides "+name+": package not loaded")
			continue
		}
		fn := p.LookupFunc(sp.Pkg.Path(), kv["func"])
		if fn == nil {
			errs = append(errs, "contract-stale: decides "+name+": function "+kv["func"]+" not found")
			continue
		}
		g := NewGen(p, nil, nil)
		g.Label = "decides " + name
		var fns []*ssa.Function
		var collect func(f *ssa.Function)
		collect = func(f *ssa.Function) {
			fns = append(fns, f)
			for _, a := range f.AnonFuncs {
				collect(a)
			}
		}
		collect(fn)
		n := 0
		for _, f := range fns {
			for _, b := range f.Blocks {
				for _, in := range b.Instrs {
					desc, ok := siteMatches(p, kv["site"], in)
					if !ok {
						continue
					}
					if w := kv["when"]; w != "" {
						st, isSt := in.(*ssa.Store)
						if !isSt || !pathMatches(valuePath(st.Val), w) {
							continue
						}
					}
					if wa := kv["when-arg"]; wa != "" {
						// only calls whose N-th argument has this shape (when-arg=N:PATTERN)
						parts := strings.SplitN(wa, ":", 2)
						var an int
						fmt.Sscanf(parts[0], "%d", &an)
						c, isCall := in.(*ssa.Call)
						if !isCall || len(parts) != 2 || an >= len(c.Call.Args) || !pathMatches(valuePath(c.Call.Args[an]), parts[1]) {
							continue
						}
					}
					n++
					seen := map[ssa.Value]bool{}
					fields := map[string]bool{}
					for _, fct := range domFacts(in) {
						if fct.cond != nil {
							fieldsInCone(fct.cond, seen, fields, 0)
						}
					}
					if kv["control"] != "" {
						// control dependence in the wide sense: every branch one arm of which can reach the site (within the
						// same loop iteration) while the other cannot, e.g. `if skip { continue }` far above the site
						for _, c := range controlConds(in) {
							fieldsInCone(c, seen, fields, 0)
						}
					}
					for _, want := range splitList(kv["must"], ",") {
						o := &Oblig{Name: fmt.Sprintf("%s.%s#decides:%s.%d.%s", kv["in"], kv["func"], name, n, want), Kind: "decides", Goal: "true", Pre: "unsat", AutoSite: true,
							Pos:  strings.TrimPrefix(p.Fset.Position(in.Pos()).String(), p.Repo+"/"),
							Text: "decides " + name + ": " + desc + " is decided by conditions that read " + want}
						if !fields[want] {
							var have []string
							for k := range fields {
								have = append(have, k)
							}
							sort.Strings(have)
							o.Pre = "sat"
							o.Model = "no condition that dominates the site reads " + want + " (fields read: " + strings.Join(have, ", ") + ")"
							o.ReplayTemplate = kv["scenario"]
							o.ReplayPkgDir = strings.TrimPrefix(strings.TrimPrefix(d.Pkg, modPath), "/")
						}
						g.Obligs = append(g.Obligs, o)
					}
				}
			}
		}
		if n == 0 {
			errs = append(errs, "contract-stale: decides rule "+name+" matches no site")
		}
		gens = append(gens, g)
	}
	return gens, errs
}

// loopHasEarlyExit: the innermost natural loop containing the instruction has an edge that leaves it from a block
// other than its header. Returns "" if the loop is left only at the header (or a reason).
func loopHasEarlyExit(in ssa.Instruction) string {
	b := in.Block()
	for h := b; h != nil; h = h.Idom() {
		// is h a loop header whose natural loop contains b?
		body := map[*ssa.BasicBlock]bool{h: true}
		var work []*ssa.BasicBlock
		for _, pr := range h.Preds {
			if h.Dominates(pr) && !body[pr] {
				body[pr] = true
				work = append(work, pr)
			}
		}
		if len(work) == 0 && !(len(h.Preds) > 0 && func() bool {
			for _, pr := range h.Preds {
				if pr == h {
					return true
				}
			}
			return false
		}()) {
			continue
		}
		for len(work) > 0 {
			x := work[len(work)-1]
			work = work[:len(work)-1]
			for _, pr := range x.Preds {
				if !body[pr] {
					body[pr] = true
					work = append(work, pr)
				}
			}
		}
		if !body[b] || b == h && len(h.Preds) == 0 {
			continue
		}
		for x := range body {
			if x == h {
				continue
			}
			for _, s := range x.Succs {
				if !body[s] {
					return fmt.Sprintf("a loop that is left only when it is exhausted: block %d leaves the loop around the site early (break / return)", x.Index)
				}
			}
		}
		return ""
	}
	return "a loop around the site"
}

// callBetween: is there a call (not a deferred one) of a function or method named name on some path from instruction
// a to instruction b (a's block dominates b's)? Returns a description of the first one found.
func callBetween(a, b ssa.Instruction, name string) string {
	isCall := func(x ssa.Instruction) bool {
		c, ok := x.(*ssa.Call)
		if !ok {
			return false
		}
		if c.Call.IsInvoke() {
			return c.Call.Method.Name() == name
		}
		callee := c.Call.StaticCallee()
		return callee != nil && callee.Name() == name
	}
	ab, bb := a.Block(), b.Block()
	if ab == bb {
		on := false
		for _, x := range ab.Instrs {
			if x == b {
				break
			}
			if on && isCall(x) {
				return "block " + fmt.Sprint(ab.Index)
			}
			if x == a {
				on = true
			}
		}
		return ""
	}
	on := false
	for _, x := range ab.Instrs {
		if on && isCall(x) {
			return "block " + fmt.Sprint(ab.Index)
		}
		if x == a {
			on = true
		}
	}
	for _, x := range bb.Instrs {
		if x == b {
			break
		}
		if isCall(x) {
			return "block " + fmt.Sprint(bb.Index)
		}
	}
	// blocks strictly between: reachable from a's block and able to reach b's block
	fwd := map[*ssa.BasicBlock]bool{}
	var f func(x *ssa.BasicBlock)
	f = func(x *ssa.BasicBlock) {
		for _, s := range x.Succs {
			if !fwd[s] && s != bb {
				fwd[s] = true
				f(s)
			}
		}
	}
	f(ab)
	bwd := map[*ssa.BasicBlock]bool{}
	var g func(x *ssa.BasicBlock)
	g = func(x *ssa.BasicBlock) {
		for _, pr := range x.Preds {
			if !bwd[pr] && pr != ab {
				bwd[pr] = true
				g(pr)
			}
		}
	}
	g(bb)
	for _, x := range ab.Parent().Blocks {
		if fwd[x] && bwd[x] && x != ab && x != bb {
			for _, in := range x.Instrs {
				if isCall(in) {
					return "block " + fmt.Sprint(x.Index)
				}
			}
		}
	}
	return ""
}

// controlConds returns the conditions of the branches that decide whether the instruction is reached: exactly one
// successor of the branch reaches the instruction's block without going around a loop that contains it.
func controlConds(in ssa.Instruction) []ssa.Value {
	target := in.Block()
	reach := func(from *ssa.BasicBlock) bool {
		seen := map[*ssa.BasicBlock]bool{}
		var walk func(b *ssa.BasicBlock) bool
		walk = func(b *ssa.BasicBlock) bool {
			if b == target {
				return true
			}
			if seen[b] {
				return false
			}
			seen[b] = true
			for _, s := range b.Succs {
				if s != target && s.Dominates(target) && s.Dominates(b) {
					// back edge to a loop header that encloses the target: the next iteration is another item
					continue
				}
				if walk(s) {
					return true
				}
			}
			return false
		}
		return walk(from)
	}
	var out []ssa.Value
	for _, b := range target.Parent().Blocks {
		if len(b.Instrs) == 0 || len(b.Succs) != 2 {
			continue
		}
		iff, ok := b.Instrs[len(b.Instrs)-1].(*ssa.If)
		if !ok {
			continue
		}
		// an arm that IS the back edge (an empty `continue` block is threaded away by the SSA builder) goes to the next item
		arm := func(s *ssa.BasicBlock) bool {
			if s != target && s.Dominates(target) && s.Dominates(b) {
				return false
			}
			return reach(s)
		}
		if arm(b.Succs[0]) != arm(b.Succs[1]) {
			out = append(out, iff.Cond)
		}
	}
	return out
}

// runConsultedRules: `consulted NAME PROPS: type=pkg.Type ; in=pkgA,pkgB ; except=Const:reason,...`
// Every exported constant of the named type (a feature table) is used as an operand somewhere in the listed packages:
// a table entry nobody consults is a feature nobody gates.
func runConsultedRules(p *Program, id string) ([]*Gen, []string) {
	var gens []*Gen
	var errs []string
	for _, d := range p.CS.Dirs {
		if d.Kind != "consulted" {
			continue
		}
		j := strings.Index(d.Text, ":")
		if j < 0 {
			continue
		}
		head := strings.Fields(d.Text[:j])
		if len(head) == 0 || !hasProp(head[1:], id) {
			continue
		}
		name := head[0]
		kv := map[string]string{}
		for _, part := range strings.Split(d.Text[j+1:], ";") {
			part = strings.TrimSpace(part)
			if k := strings.Index(part, "="); k > 0 {
				kv[strings.TrimSpace(part[:k])] = strings.TrimSpace(part[k+1:])
			}
		}
		tparts := strings.SplitN(kv["type"], ".", 2)
		if len(tparts) != 2 {
			errs = append(errs, "contract-stale: consulted "+name+": type must be pkg.Type")
			continue
		}
		var tpkg *ssa.Package
		for path, x := range p.Pkgs {
			if x.Pkg.Name() == tparts[0] && strings.HasPrefix(path, modPath) {
				tpkg = x
			}
		}
		if tpkg == nil {
			errs = append(errs, "contract-stale: consulted "+name+": package "+tparts[0]+" not loaded")
			continue
		}
		// the constants of that type
		consts := map[string]constant.Value{}
		for _, nm := range tpkg.Pkg.Scope().Names() {
			if c, ok := tpkg.Pkg.Scope().Lookup(nm).(*types.Const); ok && c.Exported() {
				if n, ok := c.Type().(*types.Named); ok && n.Obj().Name() == tparts[1] {
					consts[nm] = c.Val()
				}
			}
		}
		if len(consts) == 0 {
			errs = append(errs, "contract-stale: consulted "+name+": no constants of type "+kv["type"])
			continue
		}
		except := map[string]bool{}
		for _, e := range splitList(kv["except"], ",") {
			except[strings.TrimSpace(strings.SplitN(e, ":", 2)[0])] = true
		}
		// every constant operand of that type in the listed packages
		used := map[string]bool{}
		inPkgs := map[string]bool{}
		for _, n := range splitList(kv["in"], ",") {
			inPkgs[n] = true
		}
		for path, x := range p.Pkgs {
			if !inPkgs[x.Pkg.Name()] || !strings.HasPrefix(path, modPath) {
				continue
			}
			var visit func(f *ssa.Function)
			visit = func(f *ssa.Function) {
				for _, b := range f.Blocks {
					for _, in := range b.Instrs {
						for _, op := range in.Operands(nil) {
							if op == nil || *op == nil {
								continue
							}
							c, ok := (*op).(*ssa.Const)
							if !ok || c.Value == nil {
								continue
							}
							n, ok := c.Type().(*types.Named)
							if !ok || n.Obj().Name() != tparts[1] || n.Obj().Pkg() == nil || n.Obj().Pkg().Name() != tparts[0] {
								continue
							}
							// a constant may be a union of table entries (A | B): every entry whose bit is in it counts
							for nm, v := range consts {
								cv, ok1 := constant.Uint64Val(constant.ToInt(c.Value))
								tv, ok2 := constant.Uint64Val(constant.ToInt(v))
								if ok1 && ok2 && tv != 0 && cv&tv == tv {
									used[nm] = true
								}
							}
						}
					}
				}
				for _, a := range f.AnonFuncs {
					visit(a)
				}
			}
			for _, m := range x.Members {
				if f, ok := m.(*ssa.Function); ok {
					visit(f)
				}
				if t, ok := m.(*ssa.Type); ok {
					for _, recv := range []types.Type{t.Type(), types.NewPointer(t.Type())} {
						ms := p.Prog.MethodSets.MethodSet(recv)
						for i := 0; i < ms.Len(); i++ {
							if f := p.Prog.MethodValue(ms.At(i)); f != nil && f.Pkg == x {
								visit(f)
							}
						}
					}
				}
			}
		}
		g := NewGen(p, nil, nil)
		g.Label = "consulted " + name
		var names []string
		for nm := range consts {
			names = append(names, nm)
		}
		sort.Strings(names)
		for _, nm := range names {
			if except[nm] {
				continue
			}
			o := &Oblig{Name: fmt.Sprintf("%s#consulted:%s.%s", tparts[0], name, nm), Kind: "consulted", Goal: "true", Pre: "unsat", AutoSite: true,
				Text: "consulted " + name + ": " + kv["type"] + " constant " + nm + " is used in one of " + kv["in"]}
			if !used[nm] {
				o.Pre = "sat"
				o.Model = "no instruction in " + kv["in"] + " has the constant " + tparts[0] + "." + nm + " as an operand: the table entry is never consulted"
				o.ReplayTemplate = kv["scenario."+nm]
				o.ReplayPkgDir = strings.TrimPrefix(strings.TrimPrefix(d.Pkg, modPath), "/")
			}
			g.Obligs = append(g.Obligs, o)
		}
		gens = append(gens, g)
	}
	return gens, errs
}
