package main

import (
	"fmt"
	"go/constant"
	"go/token"
	"go/types"
	"math/big"
	"sort"
	"strings"
	"sync"

	"golang.org/x/tools/go/ssa"
)

type Oblig struct {
	Name       string
	Kind       string
	Goal       string
	NAsserts   int
	Pos        string
	Fn         string
	Props      []string
	Text       string // the contract clause text, when there is one
	Cover      bool   // vacuity cover: expected SAT
	ExpectFail bool
	// results
	Status           string // unsat sat unknown timeout error
	Solver           string
	Ms               int
	Model            string
	Extra            []string // extra get-value terms
	File             string
	AutoSite         bool   // auto-discovered site obligation: a new failing one is a violation
	Pre              string // status decided without a solver (dataflow obligations)
	Replay           func(repo string, o *Oblig) (string, bool)
	Witness          string
	WitnessConfirmed bool
	Subs             []*Oblig
	FailedSub        string
	WitTerms         [][2]string
	ReplayOut        string
	ReplayTemplate   string
	ReplayPkgDir     string
	ClauseProps      []string
}

// Gen generates verification conditions for one function (plus inlined callees).
type Gen struct {
	P               *Program
	Fn              *ssa.Function
	FC              *FuncContract
	BV              bool
	decls           []string
	declared        map[string]bool
	asserts         []string
	assertDef       []string
	assertSyms      [][]string
	Obligs          []*Oblig
	structs         map[string]string // typeKey -> sort
	keySort         map[string]string // heap key -> element sort
	fresh           int
	tags            map[string]int
	tagList         []string
	strlits         map[string]string
	Notes           []string // imprecision notes
	noteSeen        map[string]bool
	ufs             map[string]bool
	axiomsIn        map[string]bool
	useStrLt        bool
	inlineDepth     int
	specDefs        map[string]*specDef
	specBusy        map[string]bool
	Assumptions     map[string]bool
	pkgOf           *types.Package
	namePrefix      string
	maxVC           int
	inlineSeq       int
	inlined         map[string]bool
	calleeContracts map[string]bool
	callSeq         int
	globalCount     int
	obNames         map[string]bool
	safetyCount     map[string]int
	boxedTags       map[int]bool
	qseq            int
	usedSpecs       map[string]bool
	pureSeen        map[string]bool
	fpUndefSigned   map[string]bool
	siteSeq         map[string]int
	siteHits        map[string]int
	Label           string
	noSlice         bool
	retGroups       []*retGroup
	sliceMu         sync.Mutex
}

type specDef struct {
	name        string
	heapKeys    []string
	retSort     string
	retGT       types.Type
	retElem     types.Type
	params      []Val
	translating bool
	unfoldBody  string          // ground-unfolding mode: macro holding one unfolding of a recursive spec function
	unfolded    map[string]bool // applications already unfolded
}

func NewGen(p *Program, fn *ssa.Function, fc *FuncContract) *Gen {
	g := &Gen{P: p, Fn: fn, FC: fc, declared: map[string]bool{}, structs: map[string]string{}, keySort: map[string]string{},
		tags: map[string]int{}, strlits: map[string]string{}, noteSeen: map[string]bool{}, ufs: map[string]bool{}, axiomsIn: map[string]bool{},
		specDefs: map[string]*specDef{}, specBusy: map[string]bool{}, Assumptions: map[string]bool{},
		inlined: map[string]bool{}, calleeContracts: map[string]bool{}, obNames: map[string]bool{}, safetyCount: map[string]int{},
		boxedTags: map[int]bool{}, usedSpecs: map[string]bool{}, pureSeen: map[string]bool{}, fpUndefSigned: map[string]bool{}, siteSeq: map[string]int{}, siteHits: map[string]int{}}
	g.keySort["$alloc"] = "Int"
	g.keySort["G|waited"] = "Bool"
	if fc != nil {
		g.BV = fc.Arith == "bv"
	}
	if fn != nil && fn.Pkg != nil {
		g.pkgOf = fn.Pkg.Pkg
	}
	return g
}

func (g *Gen) note(s string) {
	if !g.noteSeen[s] {
		g.noteSeen[s] = true
		g.Notes = append(g.Notes, s)
	}
}

func (g *Gen) assume(s string) {
	if s == "true" || s == "" {
		return
	}
	g.asserts = append(g.asserts, s)
	g.assertDef = append(g.assertDef, "")
}

// assumeDef records an assertion that only constrains the fresh constant c (a definition or a
// type invariant of c): it is relevant to a goal only if c is.
func (g *Gen) assumeDef(c string, s string) {
	if s == "true" || s == "" {
		return
	}
	var keep []string
	for _, d := range strings.Fields(c) {
		if g.declared[d] || strings.HasPrefix(d, "*") {
			keep = append(keep, d)
		}
	}
	g.asserts = append(g.asserts, s)
	g.assertDef = append(g.assertDef, strings.Join(keep, " "))
}

func isSymChar(c byte) bool {
	return c != ' ' && c != '(' && c != ')' && c != '\n' && c != '\t'
}

// symsOf extracts the declared symbols mentioned in an SMT term.
func (g *Gen) symsOf(s string) []string {
	var out []string
	i := 0
	for i < len(s) {
		if !isSymChar(s[i]) {
			i++
			continue
		}
		j := i
		for j < len(s) && isSymChar(s[j]) {
			j++
		}
		tok := s[i:j]
		if g.declared[tok] {
			out = append(out, tok)
		}
		i = j
	}
	return out
}

// sliceFor returns the indices of the assertions (among the first n) relevant to the goal.
func (g *Gen) sliceFor(goal string, n int) []int {
	g.sliceMu.Lock()
	defer g.sliceMu.Unlock()
	if n > len(g.asserts) {
		n = len(g.asserts)
	}
	for len(g.assertSyms) < len(g.asserts) {
		g.assertSyms = append(g.assertSyms, g.symsOf(g.asserts[len(g.assertSyms)]))
	}
	rel := map[string]bool{}
	for _, s := range g.symsOf(goal) {
		rel[s] = true
	}
	// symbols used by global declarations (axioms) do not make anything relevant by themselves
	included := make([]bool, n)
	for changed := true; changed; {
		changed = false
		for i := 0; i < n; i++ {
			if included[i] {
				continue
			}
			hit := false
			if d := g.assertDef[i]; d != "" {
				for _, dd := range strings.Fields(d) {
					if dd[0] == '*' {
						for r := range rel {
							if strings.HasSuffix(r, dd[1:]) {
								hit = true
								break
							}
						}
					} else if rel[dd] {
						hit = true
					}
					if hit {
						break
					}
				}
			} else {
				for _, s := range g.assertSyms[i] {
					if rel[s] && !strings.HasPrefix(s, "r!") {
						hit = true
						break
					}
				}
			}
			if hit {
				included[i] = true
				changed = true
				for _, s := range g.assertSyms[i] {
					rel[s] = true
				}
			}
		}
	}
	var idx []int
	for i := 0; i < n; i++ {
		if included[i] {
			idx = append(idx, i)
		}
	}
	return idx
}

func (g *Gen) decl(s string) { g.decls = append(g.decls, s) }

func (g *Gen) freshName(base string) string {
	g.fresh++
	return fmt.Sprintf("%s!%d", sanitize(base), g.fresh)
}

func (g *Gen) declConst(name, sort string) string {
	if !g.declared[name] {
		g.declared[name] = true
		g.decl(fmt.Sprintf("(declare-const %s %s)", name, sort))
	}
	return name
}

func (g *Gen) freshConst(base, sort string) string {
	return g.declConst(g.freshName(base), sort)
}

func (g *Gen) declFun(name string, args []string, ret string) {
	if !g.declared[name] {
		g.declared[name] = true
		g.decl(fmt.Sprintf("(declare-fun %s (%s) %s)", name, strings.Join(args, " "), ret))
	}
}

// ---------------------------------------------------------------------------------------
// Sorts

func (g *Gen) idxSort() string {
	if g.BV {
		return "(_ BitVec 64)"
	}
	return "Int"
}

func (g *Gen) intSort(bits int) string {
	if g.BV {
		return fmt.Sprintf("(_ BitVec %d)", bits)
	}
	return "Int"
}

func (g *Gen) sortOf(t types.Type) string {
	switch u := t.Underlying().(type) {
	case *types.Basic:
		switch {
		case u.Info()&types.IsBoolean != 0:
			return "Bool"
		case u.Info()&types.IsInteger != 0:
			bits, _, _ := intInfo(u)
			return g.intSort(bits)
		case u.Kind() == types.Float32:
			return "Float32"
		case u.Info()&types.IsFloat != 0:
			return "Float64"
		case u.Info()&types.IsString != 0:
			return "Str"
		case u.Kind() == types.UnsafePointer, u.Kind() == types.UntypedNil:
			return "Ptr"
		}
		return "Ptr"
	case *types.Pointer, *types.Map, *types.Chan, *types.Signature:
		return "Ptr"
	case *types.Slice:
		return "Slice"
	case *types.Interface:
		return "Iface"
	case *types.Struct:
		return g.structSort(t)
	case *types.Array:
		return fmt.Sprintf("(Array %s %s)", g.idxSort(), g.sortOf(u.Elem()))
	case *types.Tuple:
		return "Tuple"
	}
	return "Ptr"
}

func (g *Gen) structSort(t types.Type) string {
	key := typeKey(t)
	if s, ok := g.structs[key]; ok {
		return s
	}
	st := t.Underlying().(*types.Struct)
	name := "S_" + key
	g.structs[key] = name
	var fields []string
	for i := 0; i < st.NumFields(); i++ {
		fields = append(fields, fmt.Sprintf("(%s.%d %s)", name, i, g.sortOf(st.Field(i).Type())))
	}
	g.decl(fmt.Sprintf("(declare-datatypes ((%s 0)) (((mk-%s %s))))", name, name, strings.Join(fields, " ")))
	return name
}

func (g *Gen) structField(v Val, idx int) Val {
	st := v.GT.Underlying().(*types.Struct)
	sn := g.structSort(v.GT)
	ft := st.Field(idx).Type()
	return Val{S: fmt.Sprintf("(%s.%d %s)", sn, idx, v.S), Sort: g.sortOf(ft), GT: ft}
}

func (g *Gen) mkStruct(t types.Type, fields []Val) Val {
	sn := g.structSort(t)
	if len(fields) == 0 {
		return Val{S: "mk-" + sn, Sort: sn, GT: t}
	}
	var fs []string
	for _, f := range fields {
		fs = append(fs, f.S)
	}
	return Val{S: app("mk-"+sn, fs...), Sort: sn, GT: t}
}

func (g *Gen) intLit(v *big.Int, t types.Type) Val {
	bits, _, ok := intInfo(t)
	if !ok {
		bits = 64
	}
	if g.BV {
		return Val{S: bvLit(v, bits), Sort: g.intSort(bits), GT: t}
	}
	return Val{S: smtInt(v), Sort: "Int", GT: t}
}

func (g *Gen) idxLit(n int64) string {
	if g.BV {
		return bvLit(big.NewInt(n), 64)
	}
	return smtInt(big.NewInt(n))
}

var tInt = types.Typ[types.Int]
var tBool = types.Typ[types.Bool]
var tByte = types.Typ[types.Uint8]
var tString = types.Typ[types.String]
var tFloat64 = types.Typ[types.Float64]

func (g *Gen) boolVal(s string) Val { return Val{S: s, Sort: "Bool", GT: tBool} }

func (g *Gen) zero(t types.Type) Val {
	switch u := t.Underlying().(type) {
	case *types.Basic:
		switch {
		case u.Info()&types.IsBoolean != 0:
			return g.boolVal("false")
		case u.Info()&types.IsInteger != 0:
			return g.intLit(big.NewInt(0), t)
		case u.Kind() == types.Float32:
			return Val{S: fpLit32(0), Sort: "Float32", GT: t}
		case u.Info()&types.IsFloat != 0:
			return Val{S: fpLit64(0), Sort: "Float64", GT: t}
		case u.Info()&types.IsString != 0:
			return Val{S: "gstr.empty", Sort: "Str", GT: t}
		}
		return Val{S: "nilptr", Sort: "Ptr", GT: t}
	case *types.Slice:
		z := g.idxLit(0)
		return Val{S: app("mk-slice", "nilptr", z, z, z), Sort: "Slice", GT: t}
	case *types.Interface:
		return Val{S: "niliface", Sort: "Iface", GT: t}
	case *types.Struct:
		var fs []Val
		for i := 0; i < u.NumFields(); i++ {
			fs = append(fs, g.zero(u.Field(i).Type()))
		}
		return g.mkStruct(t, fs)
	case *types.Array:
		s := g.sortOf(t)
		return Val{S: fmt.Sprintf("((as const %s) %s)", s, constValue(g.zero(u.Elem()).S)), Sort: s, GT: t}
	}
	return Val{S: "nilptr", Sort: "Ptr", GT: t}
}

func (g *Gen) strConst(s string) Val {
	if s == "" {
		return Val{S: "gstr.empty", Sort: "Str", GT: tString}
	}
	if n, ok := g.strlits[s]; ok {
		return Val{S: n, Sort: "Str", GT: tString}
	}
	name := fmt.Sprintf("strlit!%d", len(g.strlits))
	g.strlits[s] = name
	g.decl(fmt.Sprintf("(declare-const %s Str) ; %q", name, truncate(s, 60)))
	g.decl(fmt.Sprintf("(assert (= (gstr.len %s) %s))", name, g.idxLit(int64(len(s)))))
	if len(s) <= 300 {
		for i := 0; i < len(s); i++ {
			g.decl(fmt.Sprintf("(assert (= (gstr.at %s %s) %s))", name, g.idxLit(int64(i)), g.intLit(big.NewInt(int64(s[i])), tByte).S))
		}
	}
	return Val{S: name, Sort: "Str", GT: tString}
}

// strLitText returns the text of a string literal constant previously interned by strConst.
func (g *Gen) strLitText(name string) (string, bool) {
	if name == "gstr.empty" {
		return "", true
	}
	for txt, n := range g.strlits {
		if n == name {
			return txt, true
		}
	}
	return "", false
}

func truncate(s string, n int) string {
	if len(s) > n {
		return s[:n] + "..."
	}
	return s
}

func (g *Gen) constVal(c *ssa.Const) Val {
	t := c.Type()
	if c.Value == nil {
		return g.zero(t)
	}
	switch {
	case isBool(t):
		if constant.BoolVal(c.Value) {
			return g.boolVal("true")
		}
		return g.boolVal("false")
	case isString(t):
		return g.strConst(constant.StringVal(c.Value))
	case isFloat(t):
		f, _ := constant.Float64Val(constant.ToFloat(c.Value))
		if isFloat32(t) {
			return Val{S: fpLit32(float32(f)), Sort: "Float32", GT: t}
		}
		return Val{S: fpLit64(f), Sort: "Float64", GT: t}
	}
	if _, _, ok := intInfo(t); ok {
		bi, ok := constBig(c.Value)
		if ok {
			return g.intLit(bi, t)
		}
	}
	g.note("unsupported constant " + c.String())
	return g.havocVal("const", t)
}

// havocVal returns a fresh unconstrained value of type t (with type invariants assumed).
func (g *Gen) havocVal(base string, t types.Type) Val {
	if tup, ok := t.(*types.Tuple); ok {
		v := Val{Sort: "Tuple", GT: t}
		for i := 0; i < tup.Len(); i++ {
			v.Tuple = append(v.Tuple, g.havocVal(fmt.Sprintf("%s.%d", base, i), tup.At(i).Type()))
		}
		return v
	}
	s := g.sortOf(t)
	n := g.freshConst(base, s)
	v := Val{S: n, Sort: s, GT: t}
	return v
}

// typeInv gives the representation invariant of a value (integer ranges in int mode, slice shape).
func (g *Gen) typeInv(v Val, alloc string) string {
	if v.GT == nil {
		return "true"
	}
	switch u := v.GT.Underlying().(type) {
	case *types.Basic:
		if u.Info()&types.IsInteger != 0 && !g.BV {
			bits, signed, _ := intInfo(u)
			lo, hi := intRange(bits, signed)
			return and(app("<=", smtInt(lo), v.S), app("<=", v.S, smtInt(hi)))
		}
		if u.Kind() == types.UnsafePointer && alloc != "" {
			return app("<=", app("obj", v.S), alloc)
		}
	case *types.Pointer, *types.Map, *types.Chan, *types.Signature:
		if alloc != "" {
			return app("<=", app("obj", v.S), alloc)
		}
	case *types.Interface:
		if alloc != "" {
			return app("<=", app("obj", app("i_val", v.S)), alloc)
		}
	case *types.Slice:
		var c []string
		z := g.idxLit(0)
		c = append(c, g.icmp("<=", z, app("s_off", v.S), true), g.icmp("<=", z, app("s_len", v.S), true), g.icmp("<=", app("s_len", v.S), app("s_cap", v.S), true))
		if !g.BV {
			c = append(c, app("<=", app("+", app("s_off", v.S), app("s_cap", v.S)), "281474976710656"))
		} else {
			c = append(c, app("bvsle", app("s_off", v.S), "(_ bv281474976710656 64)"), app("bvsle", app("s_cap", v.S), "(_ bv281474976710656 64)"))
		}
		if alloc != "" {
			c = append(c, app("<=", app("obj", app("s_arr", v.S)), alloc))
		}
		return and(c...)
	case *types.Struct:
		var c []string
		for i := 0; i < u.NumFields(); i++ {
			c = append(c, g.typeInv(g.structField(v, i), alloc))
		}
		return and(c...)
	}
	return "true"
}

// icmp builds an integer comparison on index-sorted terms.
func (g *Gen) icmp(op string, a, b string, signed bool) string {
	if !g.BV {
		return app(op, a, b)
	}
	m := map[string]string{"<": "bvslt", "<=": "bvsle", ">": "bvsgt", ">=": "bvsge"}
	if !signed {
		m = map[string]string{"<": "bvult", "<=": "bvule", ">": "bvugt", ">=": "bvuge"}
	}
	return app(m[op], a, b)
}

func (g *Gen) iadd(a, b string) string {
	if g.BV {
		return app("bvadd", a, b)
	}
	if b == "0" {
		return a
	}
	if a == "0" {
		return b
	}
	return app("+", a, b)
}
func (g *Gen) isub(a, b string) string {
	if g.BV {
		return app("bvsub", a, b)
	}
	if b == "0" {
		return a
	}
	return app("-", a, b)
}

// ---------------------------------------------------------------------------------------
// Type tags for interfaces

func (g *Gen) typeTag(t types.Type) int {
	k := types.TypeString(t, func(p *types.Package) string { return p.Path() })
	if id, ok := g.tags[k]; ok {
		return id
	}
	id := len(g.tags) + 1
	g.tags[k] = id
	g.tagList = append(g.tagList, k)
	return id
}

func pointerShaped(t types.Type) bool {
	switch t.Underlying().(type) {
	case *types.Pointer, *types.Map, *types.Chan, *types.Signature:
		return true
	case *types.Basic:
		return t.Underlying().(*types.Basic).Kind() == types.UnsafePointer
	}
	return false
}

// ---------------------------------------------------------------------------------------
// Heap state (lazy, persistent)

type HeapState struct {
	g          *Gen
	parent     *HeapState
	over       map[string]string
	preds      []*HeapState
	conds      []string
	epoch      string
	hv         *ModSet
	cache      map[string]string
	frozen     bool
	symEnv     *Env
	privParent *HeapState
}

func (g *Gen) newBaseHeap(tag string) *HeapState {
	return &HeapState{g: g, epoch: g.freshName("e_" + tag), cache: map[string]string{}}
}

func (h *HeapState) child() *HeapState {
	return &HeapState{g: h.g, parent: h, over: map[string]string{}, cache: map[string]string{}}
}

func (g *Gen) mergeHeaps(preds []*HeapState, conds []string) *HeapState {
	if len(preds) == 1 {
		return preds[0].child()
	}
	m := &HeapState{g: g, preds: preds, conds: conds, cache: map[string]string{}}
	return m.child()
}

func (g *Gen) heapMapSort(key string) string {
	if key == "$alloc" {
		return "Int"
	}
	es, ok := g.keySort[key]
	if !ok {
		panic("heap key without sort: " + key)
	}
	if strings.HasPrefix(key, "L|") {
		return es
	}
	if strings.HasPrefix(key, "E|") {
		return fmt.Sprintf("(Array Ptr (Array %s %s))", g.idxSort(), es)
	}
	if key == "$alloc" {
		return "Int"
	}
	return fmt.Sprintf("(Array Ptr %s)", es)
}

func (h *HeapState) get(key string) string {
	if h.symEnv != nil {
		return h.symEnv.heapGet(key)
	}
	if v, ok := h.cache[key]; ok {
		return v
	}
	var v string
	switch {
	case h.over != nil && h.over[key] != "":
		v = h.over[key]
	case h.hv != nil && (h.hv.Maps[key] || (h.hv.Std && !h.g.P.IsModuleKey(key) && key != "$alloc" && !strings.HasPrefix(key, "L|"))):
		v = h.g.declConst(sanitize(key)+"@"+h.epoch, h.g.heapMapSort(key))
		if !h.hv.Maps[key] && strings.HasPrefix(key, "H|") && h.parent != nil {
			// havocked only because the standard library may write cells of this (non-module) type: package-level
			// variables of the module (objects with negative ids) are not reachable from there and keep their value
			h.g.assumeDef(v, fmt.Sprintf("(forall ((p Ptr)) (! (=> (< (obj p) 0) (= (select %s p) (select %s p))) :pattern ((select %s p))))", v, h.parent.get(key), v))
		}
	case h.preds != nil:
		var vals []string
		same := true
		for _, p := range h.preds {
			pv := p.get(key)
			if len(vals) > 0 && pv != vals[0] {
				same = false
			}
			vals = append(vals, pv)
		}
		if same {
			v = vals[0]
		} else {
			v = h.g.freshConst("m_"+key, h.g.heapMapSort(key))
			for i, pv := range vals {
				h.g.assumeDef(v, implies(h.conds[i], eq(v, pv)))
			}
		}
	case h.parent != nil:
		v = h.parent.get(key)
	case h.privParent != nil && strings.HasPrefix(key, "L|"):
		v = h.privParent.get(key)
	default:
		v = h.g.declConst(sanitize(key)+"@"+h.epoch, h.g.heapMapSort(key))
	}
	h.cache[key] = v
	return v
}

// havocEpoch returns the epoch name of the nearest havoc node (used to tie callee postconditions to the maps they constrain).
func (h *HeapState) havocEpoch() string {
	for x := h; x != nil; x = x.parent {
		if x.hv != nil || (x.parent == nil && x.preds == nil) {
			return x.epoch
		}
		if x.preds != nil {
			return ""
		}
	}
	return ""
}

func (h *HeapState) set(key, term string) {
	if h.frozen {
		panic("write to frozen heap state")
	}
	h.over[key] = term
	h.cache[key] = term
}

// havoc returns a child state in which the maps of ms are unconstrained (lazily, per key).
func (h *HeapState) havoc(ms *ModSet, why string) *HeapState {
	g := h.g
	var n *HeapState
	if ms.All {
		n = g.newBaseHeap(why)
		// private cells of the running function are out of the callee's reach: only those the (loop) frame names are lost
		n.privParent = h
		n.hv = &ModSet{Maps: map[string]bool{}}
		for k := range ms.Maps {
			if strings.HasPrefix(k, "L|") {
				n.hv.Maps[k] = true
			}
		}
	} else {
		n = &HeapState{g: g, parent: h, hv: ms, epoch: g.freshName("hv_" + why), cache: map[string]string{}}
	}
	// the allocation watermark only grows
	a := g.freshConst("alloc", "Int")
	g.assumeDef(a, app("<=", h.get("$alloc"), a))
	c := n.child()
	c.set("$alloc", a)
	return c
}

func (g *Gen) ensureKey(key, elemSort string) {
	if _, ok := g.keySort[key]; !ok {
		g.keySort[key] = elemSort
	}
}

var _ = sort.Strings
var _ = token.ADD

// constValue expands the nil abbreviations (cvc5 wants a literal value inside a constant array).
func constValue(s string) string {
	s = strings.ReplaceAll(s, "niliface", "(mk-iface 0 (mk-ptr 0 root))")
	return strings.ReplaceAll(s, "nilptr", "(mk-ptr 0 root)")
}
