package main

// `govc sweep pkg...`: zero-annotation safety sweep (developer tool, not a registered check). Every function of
// the given packages whose parameters are plain data (numbers, strings, byte/uint16 slices, booleans) gets an
// empty contract with `safety` on (index, slice, nil, division, conversion obligations) and is symbolically
// executed with unconstrained arguments. A `sat` answer is a candidate crash to be replayed by hand; functions
// with loops but no invariants mostly stay undecided and are only listed.

import (
	"flag"
	"fmt"
	"go/types"
	"os"
	"sort"
	"strings"
	"time"

	"golang.org/x/tools/go/ssa"
)

func plainData(t types.Type) bool {
	switch u := t.Underlying().(type) {
	case *types.Basic:
		return u.Kind() != types.UnsafePointer
	case *types.Slice:
		b, ok := u.Elem().Underlying().(*types.Basic)
		return ok && b.Info()&(types.IsInteger|types.IsString) != 0
	}
	return false
}

func cmdSweep(args []string) {
	fs := flag.NewFlagSet("sweep", flag.ExitOnError)
	repo := fs.String("repo", "/repo", "repository root")
	mirror := fs.String("contracts", "/verif/contracts", "contract mirror")
	timeout := fs.Int("timeout", 5, "solver timeout (s)")
	out := fs.String("out", "/tmp/govc-sweep", "directory for SMT files")
	only := fs.String("func", "", "only functions whose name contains this")
	fs.Parse(args)
	var pats []string
	want := map[string]bool{}
	for _, a := range fs.Args() {
		pats = append(pats, "./"+a)
		want[modPath+"/"+a] = true
	}
	t0 := time.Now()
	p, err := LoadProgram(*repo, pats)
	if err != nil {
		fmt.Fprintln(os.Stderr, err)
		os.Exit(2)
	}
	var ips []string
	for path := range p.Pkgs {
		if strings.HasPrefix(path, modPath) {
			ips = append(ips, path)
		}
	}
	sort.Strings(ips)
	cs, err := LoadContracts(*repo, *mirror, modPath, ips)
	if err != nil {
		fmt.Fprintln(os.Stderr, err)
		os.Exit(2)
	}
	p.CS = cs
	fmt.Printf("loaded in %.1fs\n", time.Since(t0).Seconds())
	os.MkdirAll(*out, 0o755)
	var fns []*ssa.Function
	for f := range p.AllFuncs {
		if f.Pkg == nil || !want[f.Pkg.Pkg.Path()] || f.Blocks == nil || f.Parent() != nil || f.Synthetic != "" {
			continue
		}
		if *only != "" && !strings.Contains(f.Name(), *only) {
			continue
		}
		ok := len(f.Params) > 0
		for _, prm := range f.Params {
			if !plainData(prm.Type()) {
				ok = false
			}
		}
		if !ok || len(f.Blocks) > 120 {
			continue
		}
		if p.ContractFor(f) != nil {
			continue
		}
		fns = append(fns, f)
	}
	sort.Slice(fns, func(i, j int) bool { return fullName(fns[i]) < fullName(fns[j]) })
	for _, f := range fns {
		_, short := ContractName(f)
		fc := &FuncContract{Pkg: f.Pkg.Pkg.Path(), Name: short, Arith: "int", Safety: true, NoOvf: true, Opts: map[string]string{"auto-counters": "1"}}
		g, err := VerifyFunc(p, fc)
		if err != nil {
			fmt.Printf("SKIP %s: %v\n", fullName(f), err)
			continue
		}
		func() {
			defer func() {
				if r := recover(); r != nil {
					fmt.Printf("SKIP %s: engine panic %v\n", fullName(f), r)
				}
			}()
			DischargeAll(g, *out, *timeout, 8)
		}()
		nsat, nunk, nok := 0, 0, 0
		var sats []string
		for _, o := range g.Obligs {
			if o.Cover {
				continue
			}
			switch {
			case o.OK():
				nok++
			case o.Status == "sat":
				nsat++
				sats = append(sats, o.Name+"@"+o.Pos)
			default:
				nunk++
			}
		}
		mark := "SAFE"
		if nsat > 0 {
			mark = "SAT "
		} else if nunk > 0 {
			mark = "UNK "
		}
		fmt.Printf("%s %-60s ok=%d sat=%d undecided=%d\n", mark, fullName(f), nok, nsat, nunk)
		for _, s := range sats {
			fmt.Printf("       %s\n", s)
		}
	}
}
