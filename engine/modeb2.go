package main

// F9: lock discipline. For the fields listed in a `protect` rule, every read or write happens while the
// object's own mutex is held (must-held lockset dataflow over the CFG, intersection at joins), every
// path that acquires the mutex releases it before returning (or has deferred the release), and the mutex
// is never released when it is not held. Objects under construction (allocated in the same function) are exempt.
//
//   //@ protect NAME PROPS...: type=T ; fields=a,b,c ; mutex=m ; in=pkg

import (
	"fmt"
	"go/types"
	"sort"
	"strings"

	"golang.org/x/tools/go/ssa"
)

type lockSet map[string]bool

func (a lockSet) clone() lockSet {
	b := lockSet{}
	for k := range a {
		b[k] = true
	}
	return b
}

func intersect(a, b lockSet) lockSet {
	r := lockSet{}
	for k := range a {
		if b[k] {
			r[k] = true
		}
	}
	return r
}

func sameSet(a, b lockSet) bool {
	if len(a) != len(b) {
		return false
	}
	for k := range a {
		if !b[k] {
			return false
		}
	}
	return true
}

// lockOp classifies a call as Lock/Unlock on a mutex path.
func lockOp(c *ssa.CallCommon) (op string, path string) {
	callee := c.StaticCallee()
	if callee == nil || callee.Pkg == nil || callee.Pkg.Pkg.Path() != "sync" || len(c.Args) == 0 {
		return "", ""
	}
	switch callee.Name() {
	case "Lock", "RLock":
		return "lock", lockPath(c.Args[0])
	case "Unlock", "RUnlock":
		return "unlock", lockPath(c.Args[0])
	}
	return "", ""
}

// lockPath names a mutex by the struct type that owns it and its access path ("apiHandler|h.mutex"), so that two
// rules whose mutex fields have the same name do not see each other's locks.
func lockPath(v ssa.Value) string {
	owner := ""
	if fa, ok := v.(*ssa.FieldAddr); ok {
		if pt, ok := fa.X.Type().Underlying().(*types.Pointer); ok {
			if n, ok := pt.Elem().(*types.Named); ok {
				owner = n.Obj().Name()
			}
		}
	}
	return owner + "|" + valuePath(v)
}

func runProtectRules(p *Program, id string) ([]*Gen, []string) {
	var gens []*Gen
	var errs []string
	for _, d := range p.CS.Dirs {
		if d.Kind != "protect" {
			continue
		}
		j := strings.Index(d.Text, ":")
		if j < 0 {
			continue
		}
		head := strings.Fields(d.Text[:j])
		if len(head) == 0 || !hasProp(head[1:], id) {
			continue
		}
		name := head[0]
		kv := map[string]string{}
		for _, part := range strings.Split(d.Text[j+1:], ";") {
			part = strings.TrimSpace(part)
			if k := strings.Index(part, "="); k > 0 {
				kv[strings.TrimSpace(part[:k])] = strings.TrimSpace(part[k+1:])
			}
		}
		fields := map[string]bool{}
		for _, f := range splitList(kv["fields"], ",") {
			fields[f] = true
		}
		g := NewGen(p, nil, nil)
		g.Label = "protect " + name
		var fns []*ssa.Function
		for fn := range p.AllFuncs {
			root := fn
			for root.Parent() != nil {
				root = root.Parent()
			}
			if root.Pkg == nil || root.Pkg.Pkg.Name() != kv["in"] || fn.Blocks == nil || !strings.HasPrefix(root.Pkg.Pkg.Path(), modPath) {
				continue
			}
			fns = append(fns, fn)
		}
		sort.Slice(fns, func(i, j int) bool { return fns[i].String() < fns[j].String() })
		// immediately-invoked closures inherit the caller's lockset
		type callSite struct {
			parent *ssa.Function
			call   ssa.Instruction
		}
		immediate := map[*ssa.Function]callSite{}
		for _, fn := range fns {
			for _, b := range fn.Blocks {
				for _, in := range b.Instrs {
					mc, ok := in.(*ssa.MakeClosure)
					if !ok {
						continue
					}
					refs := *mc.Referrers()
					var callUse ssa.Instruction
					n := 0
					for _, r := range refs {
						if _, isDbg := r.(*ssa.DebugRef); isDbg {
							continue
						}
						n++
						if c, ok := r.(*ssa.Call); ok && c.Call.Value == ssa.Value(mc) {
							callUse = c
						}
					}
					if n == 1 && callUse != nil {
						if cf, ok := mc.Fn.(*ssa.Function); ok {
							immediate[cf] = callSite{fn, callUse}
						}
					}
				}
			}
		}
		atInstr := map[ssa.Instruction]lockSet{}
		var analyse func(fn *ssa.Function, entry lockSet)
		done := map[*ssa.Function]bool{}
		total := 0
		count := map[string]int{}
		analyse = func(fn *ssa.Function, entry lockSet) {
			done[fn] = true
			in := map[*ssa.BasicBlock]lockSet{fn.Blocks[0]: entry}
			deferred := lockSet{}
			work := []*ssa.BasicBlock{fn.Blocks[0]}
			for len(work) > 0 {
				b := work[0]
				work = work[1:]
				cur := in[b].clone()
				for _, x := range b.Instrs {
					atInstr[x] = cur.clone()
					switch x := x.(type) {
					case *ssa.Call:
						if op, path := lockOp(&x.Call); op == "lock" {
							cur[path] = true
						} else if op == "unlock" {
							delete(cur, path)
						}
					case *ssa.Defer:
						if op, path := lockOp(&x.Call); op == "unlock" {
							deferred[path] = true
						}
					}
				}
				for _, s := range b.Succs {
					if old, ok := in[s]; !ok {
						in[s] = cur.clone()
						work = append(work, s)
					} else if n := intersect(old, cur); !sameSet(n, old) {
						in[s] = n
						work = append(work, s)
					}
				}
			}
			_, cname := ContractName(fn)
			key := kv["in"] + "." + cname
			// obligations
			for _, b := range fn.Blocks {
				if _, reached := in[b]; !reached {
					continue
				}
				for _, x := range b.Instrs {
					held := atInstr[x]
					switch x := x.(type) {
					case *ssa.FieldAddr:
						pt, ok := x.X.Type().Underlying().(*types.Pointer)
						if !ok {
							continue
						}
						n, ok := pt.Elem().(*types.Named)
						if !ok || n.Obj().Name() != kv["type"] {
							continue
						}
						fname := pt.Elem().Underlying().(*types.Struct).Field(x.Field).Name()
						if !fields[fname] {
							continue
						}
						used := false
						for _, r := range *x.Referrers() {
							switch r.(type) {
							case *ssa.UnOp, *ssa.Store:
								used = true
							}
						}
						if !used {
							continue
						}
						total++
						count[key]++
						pos := strings.TrimPrefix(p.Fset.Position(x.Pos()).String(), p.Repo+"/")
						o := &Oblig{Name: fmt.Sprintf("%s#lock:%s.%s.%d", key, name, fname, count[key]), Kind: "lock", Goal: "true", Pos: pos, Pre: "unsat", AutoSite: true,
							Text: "protect " + name + ": access to " + kv["type"] + "." + fname + " requires " + valuePath(x.X) + "." + kv["mutex"] + " to be held"}
						need := kv["type"] + "|" + valuePath(x.X) + "." + kv["mutex"]
						if freshRoot(x.X) {
							o.Solver = "exempt"
							o.Text += " [object under construction]"
						} else if !held[need] {
							o.Pre = "sat"
							o.Model = "lock " + need + " is not held on every path to " + pos + " (held: " + strings.Join(keysOf(held), ",") + ")"
						}
						g.Obligs = append(g.Obligs, o)
					case *ssa.Send:
						// a send on a channel blocks until a receiver (or buffer space) is available: doing it while the
						// protected mutex is held makes every other user of the mutex wait for that receiver too
						var heldProt []string
						for l := range held {
							if strings.HasSuffix(l, "."+kv["mutex"]) && strings.HasPrefix(l, kv["type"]+"|") {
								heldProt = append(heldProt, l)
							}
						}
						if len(heldProt) > 0 {
							count[key+"/s"]++
							o := &Oblig{Name: fmt.Sprintf("%s#lock:%s.no-send-under-lock.%d", key, name, count[key+"/s"]), Kind: "lock", Goal: "true", Pre: "sat", AutoSite: true,
								Pos: strings.TrimPrefix(p.Fset.Position(x.Pos()).String(), p.Repo+"/"), Text: "protect " + name + ": no blocking channel send while the mutex is held"}
							o.Model = "sends on " + valuePath(x.Chan) + " while holding " + strings.Join(heldProt, ",")
							if kv["scenario"] != "" {
								o.ReplayTemplate = kv["scenario"]
								o.ReplayPkgDir = strings.TrimPrefix(strings.TrimPrefix(d.Pkg, modPath), "/")
							}
							g.Obligs = append(g.Obligs, o)
						}
					case *ssa.Call:
						// never wait for another goroutine while holding the protected mutex
						if callee := x.Call.StaticCallee(); callee != nil {
							var heldProt []string
							for l := range held {
								if strings.HasSuffix(l, "."+kv["mutex"]) && strings.HasPrefix(l, kv["type"]+"|") {
									heldProt = append(heldProt, l)
								}
							}
							if op, _ := lockOp(&x.Call); op == "" && len(heldProt) > 0 {
								if w := mayWait(callee, map[*ssa.Function]bool{}); w != "" {
									count[key+"/w"]++
									o := &Oblig{Name: fmt.Sprintf("%s#lock:%s.no-wait-under-lock.%d", key, name, count[key+"/w"]), Kind: "lock", Goal: "true", Pre: "sat", AutoSite: true,
										Pos: strings.TrimPrefix(p.Fset.Position(x.Pos()).String(), p.Repo+"/"), Text: "protect " + name + ": no call that waits for another goroutine while the mutex is held"}
									o.Model = "calls " + callee.String() + " while holding " + strings.Join(heldProt, ",") + "; it can wait: " + w
									for _, ex := range splitList(kv["allow-wait"], ",") {
										parts := strings.SplitN(ex, ":", 2)
										if strings.TrimSpace(parts[0]) == cname && len(parts) == 2 {
											o.Pre, o.Solver = "unsat", "exempt"
											o.Text += " [exempt: " + strings.TrimSpace(parts[1]) + "]"
											g.Assumptions["protect "+name+": waiting under the mutex in "+cname+" is exempt ("+strings.TrimSpace(parts[1])+")"] = true
										}
									}
									g.Obligs = append(g.Obligs, o)
								}
							}
						}
						if op, path := lockOp(&x.Call); op == "unlock" && strings.HasSuffix(path, "."+kv["mutex"]) && strings.Contains(x.Call.Args[0].Type().String(), "sync.") {
							if !isMutexOf(x.Call.Args[0], kv["type"]) {
								continue
							}
							count[key+"/u"]++
							o := &Oblig{Name: fmt.Sprintf("%s#lock:%s.unlock-held.%d", key, name, count[key+"/u"]), Kind: "lock", Goal: "true", Pre: "unsat", AutoSite: true,
								Pos: strings.TrimPrefix(p.Fset.Position(x.Pos()).String(), p.Repo+"/"), Text: "protect " + name + ": " + path + " is held when it is released"}
							if !held[path] {
								o.Pre = "sat"
								o.Model = path + " may be released without being held"
							}
							g.Obligs = append(g.Obligs, o)
						}
					case *ssa.Return:
						var leaked []string
						for l := range held {
							if strings.HasSuffix(l, "."+kv["mutex"]) && !deferred[l] {
								leaked = append(leaked, l)
							}
						}
						if len(held) > 0 || len(deferred) > 0 {
							count[key+"/r"]++
							o := &Oblig{Name: fmt.Sprintf("%s#lock:%s.released-at-return.%d", key, name, count[key+"/r"]), Kind: "lock", Goal: "true", Pre: "unsat", AutoSite: true,
								Pos: strings.TrimPrefix(p.Fset.Position(x.Pos()).String(), p.Repo+"/"), Text: "protect " + name + ": no return while holding the mutex (unless its release is deferred)"}
							if len(leaked) > 0 {
								o.Pre = "sat"
								o.Model = "returns while holding " + strings.Join(leaked, ",")
							}
							g.Obligs = append(g.Obligs, o)
						}
					}
				}
			}
			// immediately-invoked closures
			for _, a := range fn.AnonFuncs {
				if cs, ok := immediate[a]; ok && cs.parent == fn && !done[a] {
					analyse(a, atInstr[cs.call].clone())
				}
			}
		}
		for _, fn := range fns {
			if fn.Parent() != nil {
				if _, ok := immediate[fn]; ok {
					continue // analysed from its call site
				}
			}
			if !done[fn] {
				analyse(fn, lockSet{})
			}
		}
		if total == 0 {
			errs = append(errs, "contract-stale: protect rule "+name+" matches no access")
		}
		sort.Slice(g.Obligs, func(i, j int) bool { return g.Obligs[i].Name < g.Obligs[j].Name })
		g.Assumptions["lock discipline: must-held lockset over the control-flow graph; goroutine bodies and non-immediate closures start with no lock held; says nothing about deadlock or progress"] = true
		gens = append(gens, g)
	}
	return gens, errs
}

func keysOf(s lockSet) []string {
	var ks []string
	for k := range s {
		ks = append(ks, k)
	}
	sort.Strings(ks)
	return ks
}

// isMutexOf: the mutex operand is the named field of an object of the protected type.
// isWaitGroupPkg: sync.WaitGroup and esbuild's own helpers.ThreadSafeWaitGroup have the same Add/Done/Wait protocol.
func isWaitGroupPkg(path string) bool {
	return path == "sync" || path == modPath+"/internal/helpers"
}

func isMutexOf(v ssa.Value, typeName string) bool {
	fa, ok := v.(*ssa.FieldAddr)
	if !ok {
		return false
	}
	pt, ok := fa.X.Type().Underlying().(*types.Pointer)
	if !ok {
		return false
	}
	n, ok := pt.Elem().(*types.Named)
	return ok && n.Obj().Name() == typeName
}

// ---------------------------------------------------------------------------------------
// WaitGroup hand-off: a goroutine that calls Done on a captured wait group must have been announced with
// Add before it is started (Add inside the goroutine races with Wait).
//
//	//@ waitgroup NAME PROPS...: in=pkg,pkg
func runWaitGroupRules(p *Program, id string) ([]*Gen, []string) {
	var gens []*Gen
	var errs []string
	for _, d := range p.CS.Dirs {
		if d.Kind != "waitgroup" {
			continue
		}
		j := strings.Index(d.Text, ":")
		if j < 0 {
			continue
		}
		head := strings.Fields(d.Text[:j])
		if len(head) == 0 || !hasProp(head[1:], id) {
			continue
		}
		name := head[0]
		inPkg := map[string]bool{}
		onlyWG := ""
		onlyFn := ""
		for _, part := range strings.Split(d.Text[j+1:], ";") {
			part = strings.TrimSpace(part)
			if strings.HasPrefix(part, "in=") {
				for _, x := range splitList(part[3:], ",") {
					inPkg[x] = true
				}
			}
			if strings.HasPrefix(part, "func=") {
				// only go statements inside this function (and its closures)
				onlyFn = strings.TrimSpace(part[5:])
			}
			if strings.HasPrefix(part, "only=") {
				// only wait groups with this access path (the others follow another discipline, e.g. Add at creation)
				onlyWG = strings.TrimSpace(part[5:])
			}
		}
		g := NewGen(p, nil, nil)
		g.Label = "waitgroup " + name
		var fns []*ssa.Function
		for fn := range p.AllFuncs {
			root := fn
			for root.Parent() != nil {
				root = root.Parent()
			}
			if root.Pkg == nil || !inPkg[root.Pkg.Pkg.Name()] || fn.Blocks == nil || !strings.HasPrefix(root.Pkg.Pkg.Path(), modPath) {
				continue
			}
			fns = append(fns, fn)
		}
		sort.Slice(fns, func(i, j int) bool { return fns[i].String() < fns[j].String() })
		count := map[string]int{}
		for _, fn := range fns {
			for _, b := range fn.Blocks {
				for _, in := range b.Instrs {
					gi, ok := in.(*ssa.Go)
					if !ok {
						continue
					}
					mc, ok := gi.Call.Value.(*ssa.MakeClosure)
					if !ok {
						continue
					}
					cf, ok := mc.Fn.(*ssa.Function)
					if !ok {
						continue
					}
					// wait groups the goroutine body signals (Done) through captured variables
					done := map[string]bool{}
					adds := map[string]bool{}
					for _, cb := range cf.Blocks {
						for _, ci := range cb.Instrs {
							var cc *ssa.CallCommon
							switch x := ci.(type) {
							case *ssa.Call:
								cc = &x.Call
							case *ssa.Defer:
								cc = &x.Call
							}
							if cc == nil {
								continue
							}
							callee := cc.StaticCallee()
							if callee == nil || callee.Pkg == nil || !isWaitGroupPkg(callee.Pkg.Pkg.Path()) || len(cc.Args) == 0 {
								continue
							}
							if !strings.Contains(cc.Args[0].Type().String(), "WaitGroup") {
								continue
							}
							switch callee.Name() {
							case "Done":
								done[valuePath(cc.Args[0])] = true
							case "Add":
								adds[valuePath(cc.Args[0])] = true
							}
						}
					}
					if len(done) == 0 {
						continue
					}
					_, cname := ContractName(fn)
					root := fn
					for root.Parent() != nil {
						root = root.Parent()
					}
					key := root.Pkg.Pkg.Name() + "." + cname
					var wgs []string
					for w := range done {
						wgs = append(wgs, w)
					}
					sort.Strings(wgs)
					if _, rootName := ContractName(root); onlyFn != "" && rootName != onlyFn {
						continue
					}
					for _, w := range wgs {
						if onlyWG != "" && !pathMatches(w, onlyWG) {
							continue
						}
						count[key]++
						pos := strings.TrimPrefix(p.Fset.Position(gi.Pos()).String(), p.Repo+"/")
						o := &Oblig{Name: fmt.Sprintf("%s#waitgroup:%s.%d", key, name, count[key]), Kind: "waitgroup", Goal: "true", Pre: "unsat", AutoSite: true, Pos: pos,
							Text: "waitgroup " + name + ": the goroutine started here calls " + w + ".Done(); " + w + ".Add must be called before the go statement, not inside the goroutine"}
						if adds[w] {
							o.Pre = "sat"
							o.Model = w + ".Add is called inside the goroutine body (it races with Wait)"
						} else {
							// an Add on the same wait group must dominate the go statement (possibly in an enclosing loop preheader)
							found := false
							for _, f := range domFacts(gi) {
								if f.call == nil {
									continue
								}
								callee := f.call.Call.StaticCallee()
								if callee != nil && callee.Name() == "Add" && callee.Pkg != nil && isWaitGroupPkg(callee.Pkg.Pkg.Path()) && len(f.call.Call.Args) > 0 && valuePath(f.call.Call.Args[0]) == w {
									found = true
								}
							}
							if !found {
								o.Pre = "sat"
								o.Model = "no " + w + ".Add call dominates the go statement at " + pos
							}
						}
						g.Obligs = append(g.Obligs, o)
					}
				}
			}
		}
		if len(g.Obligs) == 0 {
			errs = append(errs, "contract-stale: waitgroup rule "+name+" matches no goroutine")
		}
		gens = append(gens, g)
	}
	return gens, errs
}

// mayWait: the static call graph below fn contains a WaitGroup.Wait (returns a witness chain).
func mayWait(fn *ssa.Function, seen map[*ssa.Function]bool) string {
	if seen[fn] {
		return ""
	}
	seen[fn] = true
	if fn.Pkg != nil && fn.Pkg.Pkg.Path() == "sync" && fn.Name() == "Wait" {
		return fn.String()
	}
	if fn.Blocks == nil || (fn.Pkg != nil && !strings.HasPrefix(fn.Pkg.Pkg.Path(), modPath)) {
		return ""
	}
	for _, b := range fn.Blocks {
		for _, in := range b.Instrs {
			c, ok := in.(*ssa.Call)
			if !ok {
				continue
			}
			if callee := c.Call.StaticCallee(); callee != nil {
				if w := mayWait(callee, seen); w != "" {
					return fn.Name() + " -> " + w
				}
			}
		}
	}
	return ""
}
