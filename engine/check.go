package main

import (
	"encoding/json"
	"flag"
	"fmt"
	"golang.org/x/tools/go/ssa"
	"os"
	"path/filepath"
	"regexp"
	"sort"
	"strings"
	"time"
)

const verifRoot = "/verif"

type obligRecord struct {
	Name   string `json:"name"`
	Kind   string `json:"kind"`
	Fn     string `json:"fn,omitempty"`
	Status string `json:"status"`
	Solver string `json:"backend,omitempty"`
	Ms     int    `json:"ms"`
	Text   string `json:"clause,omitempty"`
	Pos    string `json:"pos,omitempty"`
}

type knownFinding struct {
	Kind     string // finding | fixed
	Property string
	Oblig    string
	Text     string
}

var reKF = regexp.MustCompile(`^(finding|fixed):\s+property=(\S+)\s+(?:obligation=(\S+)\s+)?(.*)$`)

var closureOrdRe = regexp.MustCompile(`\$[0-9]+`)

func loadKnownFindings() []knownFinding {
	data, err := os.ReadFile(filepath.Join(verifRoot, "known_findings.txt"))
	if err != nil {
		return nil
	}
	var out []knownFinding
	for _, ln := range strings.Split(string(data), "\n") {
		ln = strings.TrimSpace(ln)
		if m := reKF.FindStringSubmatch(ln); m != nil {
			out = append(out, knownFinding{Kind: m[1], Property: m[2], Oblig: m[3], Text: m[4]})
		}
	}
	return out
}

// packagesForProperty scans contract files (repo copy first, mirror otherwise) for blocks tagged with the property.
func packagesForProperty(repo, mirror, id string) []string {
	seen := map[string]bool{}
	re := regexp.MustCompile(`(?m)^//@\s+(prop|lemma|axiom|analysis|gate|checked|effect|protect|waitgroup|hashed|unguarded|flow|keyed|guarded|paired|decides|consulted)\b.*\b` + id + `\b`)
	scan := func(root string, strip string) {
		filepath.Walk(root, func(path string, info os.FileInfo, err error) error {
			if err != nil {
				return nil
			}
			if info.IsDir() {
				n := info.Name()
				if n == ".git" || n == "node_modules" || n == "_shared" {
					return filepath.SkipDir
				}
				return nil
			}
			if !strings.HasPrefix(info.Name(), "zz_contracts") || !strings.HasSuffix(info.Name(), "_verif.go") {
				return nil
			}
			data, _ := os.ReadFile(path)
			if re.Match(data) {
				rel, _ := filepath.Rel(strip, filepath.Dir(path))
				seen[rel] = true
				// site rules name the packages they range over
				for _, m := range reRuleIn.FindAllStringSubmatch(string(data), -1) {
					if !strings.Contains(m[1], id) {
						continue
					}
					for _, pn := range strings.Split(m[2], ",") {
						pn = strings.TrimSpace(pn)
						for _, cand := range []string{"internal/" + pn, "pkg/" + pn, "cmd/" + pn} {
							if st, err := os.Stat(filepath.Join(repo, cand)); err == nil && st.IsDir() {
								seen[cand] = true
							}
						}
					}
				}
			}
			return nil
		})
	}
	scan(filepath.Join(repo, "internal"), repo)
	scan(filepath.Join(repo, "pkg"), repo)
	scan(filepath.Join(repo, "cmd"), repo)
	scan(mirror, mirror)
	var out []string
	for k := range seen {
		out = append(out, k)
	}
	sort.Strings(out)
	return out
}

var reRuleIn = regexp.MustCompile(`(?m)^//@\s+(?:gate|checked|protect|waitgroup|effect|hashed|unguarded|flow)\s+([^:]*):.*\bin=([A-Za-z0-9_, ]+)`)

func hasProp(props []string, id string) bool {
	for _, p := range props {
		if p == id {
			return true
		}
	}
	return false
}

type checkResult struct {
	all         []*Oblig
	funcs       []string
	trusted     []string
	assumptions map[string]bool
	notes       map[string]bool
	errors      []string
	bounded     []map[string]interface{}
	loadSecs    float64
}

// repoRootOverride: the check runs against a scratch copy (seeded-change corpus); its scratch and replay files go
// to per-process directories so that it cannot disturb a concurrent run against /repo.
var repoRootOverride bool

// altRoot: where a run against a scratch copy keeps its scratch and replay files. The seeded-change corpus gives each
// of its instances a private root (GOVC_ALT_ROOT), so that concurrent instances never clean up each other's files.
func altRoot() string {
	if r := os.Getenv("GOVC_ALT_ROOT"); r != "" {
		return r
	}
	return verifRoot
}

func cmdCheck(args []string) {
	fs := flag.NewFlagSet("check", flag.ExitOnError)
	repo := fs.String("repo", "/repo", "repository root")
	mirror := fs.String("contracts", filepath.Join(verifRoot, "contracts"), "contract mirror")
	tier := fs.String("tier", "", "quick|thorough")
	updateBaseline := fs.Bool("update-baseline", false, "rewrite obligations/<id>.json from this run (maintainer only)")
	evidenceDir := fs.String("evidence", filepath.Join(verifRoot, "evidence"), "evidence directory")
	verbose := fs.Bool("v", false, "print every obligation")
	baselineDir := fs.String("baseline-dir", filepath.Join(verifRoot, "obligations"), "directory of the shipped obligation lists (the seeded-change corpus reads a snapshot)")
	fs.Parse(args)
	if fs.NArg() != 1 {
		fmt.Fprintln(os.Stderr, "usage: govc check [--tier quick|thorough] <property-id>")
		os.Exit(2)
	}
	id := fs.Arg(0)
	repoRootOverride = filepath.Clean(*repo) != "/repo"
	if *tier == "" {
		*tier = os.Getenv("VERIF_TIER")
	}
	if *tier == "" {
		*tier = "quick"
	}
	seed := 0
	fmt.Sscanf(os.Getenv("VERIF_SEED"), "%d", &seed)
	timeout := 15
	if *tier == "thorough" {
		timeout = 60
	}
	t0 := time.Now()
	res := runProperty(*repo, *mirror, id, timeout, *tier)
	wall := time.Since(t0).Seconds()

	// baseline comparison
	basePath := filepath.Join(*baselineDir, id+".json")
	var baseline []string
	if data, err := os.ReadFile(basePath); err == nil {
		json.Unmarshal(data, &baseline)
	}
	byName := map[string]*Oblig{}
	for _, o := range res.all {
		byName[o.Name] = o
	}
	kfs := loadKnownFindings()
	// Closure ordinals ($13) shift when an unrelated closure is added to or removed from the same function. A name
	// that is no longer generated is matched, modulo the ordinals, against a name that is: for known findings only
	// when the recorded name itself is gone from this run, so two obligations that exist side by side stay distinct.
	normByName := map[string]bool{}
	for _, o := range res.all {
		normByName[closureOrdRe.ReplaceAllString(o.Name, "$$")] = true
	}
	isKnown := func(name string) *knownFinding {
		for i := range kfs {
			if kfs[i].Kind == "finding" && kfs[i].Property == id && kfs[i].Oblig == name {
				return &kfs[i]
			}
		}
		if closureOrdRe.MatchString(name) {
			n := closureOrdRe.ReplaceAllString(name, "$$")
			for i := range kfs {
				if kfs[i].Kind == "finding" && kfs[i].Property == id && byName[kfs[i].Oblig] == nil &&
					closureOrdRe.ReplaceAllString(kfs[i].Oblig, "$$") == n {
					return &kfs[i]
				}
			}
		}
		return nil
	}
	type violation struct {
		name, reason, detail string
		o                    *Oblig
	}
	var viols []violation
	var known []string
	for _, e := range res.errors {
		viols = append(viols, violation{name: "engine:" + sanitize(truncate(e, 60)), reason: e})
	}
	for _, o := range res.all {
		if o.OK() {
			continue
		}
		if kf := isKnown(o.Name); kf != nil {
			known = append(known, fmt.Sprintf("KNOWN-FINDING: property=%s obligation=%s %s", id, o.Name, kf.Text))
			continue
		}
		inBase := false
		for _, b := range baseline {
			if b == o.Name || (isSafetyKind(o.Kind) && b == o.Fn+"#safety") {
				inBase = true
			}
		}
		reason := "obligation not discharged (" + o.Status + ")"
		if o.Cover {
			reason = "vacuity: cover obligation is unsatisfiable (contradictory requires/invariant)"
		}
		if !inBase && len(baseline) > 0 && !o.AutoSite {
			// new, undecided: not on the shipped list and not an auto-discovered site family
			if o.Status != "sat" && !o.WitnessConfirmed {
				fmt.Printf("note: new undecided obligation %s (%s) — not claimed\n", o.Name, o.Status)
				continue
			}
		}
		viols = append(viols, violation{name: o.Name, reason: reason, o: o})
	}
	if len(baseline) > 0 && !*updateBaseline {
		for _, b := range baseline {
			if strings.HasSuffix(b, "#safety") {
				continue
			}
			if _, ok := byName[b]; !ok {
				if kf := isKnown(b); kf != nil {
					continue
				}
				if closureOrdRe.MatchString(b) && normByName[closureOrdRe.ReplaceAllString(b, "$$")] {
					continue
				}
				viols = append(viols, violation{name: b, reason: "obligation on the shipped list was not generated (contract target missing or obligation count shrank)"})
			}
		}
	}
	// a known finding that no longer fails is fine (it would be recorded as fixed by the maintainer)

	discharged := 0
	claimed := 0
	covers := 0
	byBackend := map[string]int{}
	solverMs := 0
	var samples []obligRecord
	for _, o := range res.all {
		solverMs += o.Ms
		if o.Cover {
			if o.OK() {
				covers++
			}
			continue
		}
		if isKnown(o.Name) != nil && !o.OK() {
			continue
		}
		claimed++
		if o.OK() {
			discharged++
			byBackend[o.Solver]++
		}
		samples = append(samples, obligRecord{Name: o.Name, Kind: o.Kind, Fn: o.Fn, Status: o.Status, Solver: o.Solver, Ms: o.Ms, Text: truncate(o.Text, 200), Pos: o.Pos})
	}
	if *updateBaseline {
		var names []string
		safetyOK := map[string]bool{}
		for _, o := range res.all {
			if isSafetyKind(o.Kind) {
				if _, seen := safetyOK[o.Fn]; !seen {
					safetyOK[o.Fn] = true
				}
				if !o.OK() {
					safetyOK[o.Fn] = false
				}
				continue
			}
			if o.OK() {
				names = append(names, o.Name)
			}
		}
		for fn, ok := range safetyOK {
			if ok {
				names = append(names, fn+"#safety")
			}
		}
		sort.Strings(names)
		os.MkdirAll(filepath.Dir(basePath), 0o755)
		data, _ := json.MarshalIndent(names, "", " ")
		os.WriteFile(basePath, data, 0o644)
		fmt.Printf("baseline written: %d obligations\n", len(names))
	}

	fmt.Printf("[%s] functions under contract: %d   obligations: %d   vacuity covers sat: %d   load %.1fs\n", id, len(res.funcs), claimed, covers, res.loadSecs)
	fmt.Printf("[%s] discharged %d/%d  %v  solver %.1fs  wall %.1fs\n", id, discharged, claimed, byBackend, float64(solverMs)/1000, wall)
	if *verbose {
		for _, o := range res.all {
			fmt.Printf("   %-7s %-7s %5dms %s\n", o.Status, o.Solver, o.Ms, o.Name)
		}
	}
	for _, k := range known {
		fmt.Println(k)
	}
	// replay + violation lines
	exit := 0
	for _, v := range viols {
		exit = 1
		rp := writeReplay(*repo, id, v.name, v.reason, v.o)
		suffix := ""
		if !rp.confirmed {
			suffix = " no-failing-input-found"
		}
		fmt.Printf("VIOLATION property=%s replay=%s%s\n", id, rp.path, suffix)
		fmt.Printf("   obligation %s: %s\n", v.name, v.reason)
		if v.o != nil && v.o.Text != "" {
			fmt.Printf("   clause: %s\n", v.o.Text)
		}
	}
	// evidence
	var assumptions []string
	for a := range res.assumptions {
		assumptions = append(assumptions, a)
	}
	for n := range res.notes {
		assumptions = append(assumptions, "imprecision (sound over-approximation): "+n)
	}
	sort.Strings(assumptions)
	// every check rests at least on these (also keeps the JSON field an array when nothing else is assumed)
	assumptions = append(assumptions, "the VC generator, the memory model of DESIGN.md section 3 and the SMT solvers are trusted",
		"go/ssa (x/tools v0.29.0) faithfully represents the Go source of /repo built with -tags=verif")
	sort.Slice(samples, func(i, j int) bool { return samples[i].Name < samples[j].Name })
	ev := map[string]interface{}{
		"property_id": id,
		"tier":        *tier,
		"seed":        seed,
		"level":       "proof",
		"coverage": map[string]interface{}{
			"obligations":              claimed,
			"discharged":               discharged,
			"checker_cmd":              fmt.Sprintf("bin/govc check --tier %s %s  (VCs generated from go/ssa of %s; discharged by z3-new 5.1.0 | z3 4.8.12 | cvc5 1.0, %ds per obligation)", *tier, id, *repo, timeout),
			"trusted_base":             []string{"go/ssa + go/types (golang.org/x/tools v0.29.0) as the semantics of the Go source", "the govc VC generator (this repository, /verif/engine)", "z3 4.8.12, z3 5.1.0, cvc5 1.0", "the memory model of DESIGN.md section 2.3 (typed heap maps, fresh append, sequential execution)"},
			"samples":                  samples,
			"functions_under_contract": res.funcs,
			"trusted_contracts":        res.trusted,
			"by_backend":               byBackend,
			"solver_ms_total":          solverMs,
			"vacuity_covers_sat":       covers,
			"known_findings":           known,
			"bounded":                  res.bounded,
			"baseline_obligations":     len(baseline),
		},
		"assumptions": assumptions,
		"wall_s":      wall,
		"violations":  len(viols),
	}
	os.MkdirAll(*evidenceDir, 0o755)
	data, _ := json.MarshalIndent(ev, "", " ")
	os.WriteFile(filepath.Join(*evidenceDir, id+".json"), data, 0o644)
	os.Exit(exit)
}

// runProperty loads what the property needs and generates + discharges all of its obligations.
func runProperty(repo, mirror, id string, timeout int, tier string) *checkResult {
	res := &checkResult{assumptions: map[string]bool{}, notes: map[string]bool{}}
	pkgs := packagesForProperty(repo, mirror, id)
	if len(pkgs) == 0 {
		res.errors = append(res.errors, "no contract file mentions property "+id)
		return res
	}
	var pats, ips []string
	for _, a := range pkgs {
		pats = append(pats, "./"+a)
		ips = append(ips, modPath+"/"+a)
	}
	t0 := time.Now()
	p, err := LoadProgram(repo, pats)
	if err != nil {
		res.errors = append(res.errors, "load: "+err.Error())
		return res
	}
	ips = nil
	for path := range p.Pkgs {
		if strings.HasPrefix(path, modPath) {
			ips = append(ips, path)
		}
	}
	sort.Strings(ips)
	cs, err := LoadContracts(repo, mirror, modPath, ips)
	if err != nil {
		res.errors = append(res.errors, "contracts: "+err.Error())
		return res
	}
	p.CS = cs
	if only := os.Getenv("GOVC_DEV_ONLY"); only != "" {
		// developer aid (never set by a registered command): keep only the rules whose text contains the string and
		// skip the function contracts, so that one rule can be tried in seconds; the run prints a reminder
		var keep []*Directive
		for _, d := range cs.Dirs {
			if strings.Contains(d.Text, only) {
				keep = append(keep, d)
			}
		}
		cs.Dirs = keep
		cs.Order = nil
		fmt.Println("GOVC_DEV_ONLY set: partial run, not a verdict")
	}
	res.loadSecs = time.Since(t0).Seconds()
	for _, n := range cs.Notes {
		res.notes[n] = true
	}
	// one scratch directory per process, so that two runs of the same check (e.g. the seeded-change corpus and a
	// developer run) cannot delete each other's SMT files; runs against another repository root use their own name
	workDir := filepath.Join(verifRoot, "work", id)
	if repoRootOverride {
		workDir = filepath.Join(altRoot(), "work", fmt.Sprintf("%s-alt%d", id, os.Getpid()))
	}
	os.RemoveAll(workDir)
	os.MkdirAll(workDir, 0o755)
	if repoRootOverride {
		defer os.RemoveAll(workDir)
	}

	type job struct {
		g *Gen
		o *Oblig
	}
	var jobs []job
	for _, key := range cs.Order {
		fc := cs.Funcs[key]
		if !hasProp(fc.Props, id) {
			continue
		}
		if fc.Trusted {
			res.trusted = append(res.trusted, key)
			continue
		}
		g, err := VerifyFunc(p, fc)
		if err != nil {
			res.errors = append(res.errors, err.Error())
			continue
		}
		res.funcs = append(res.funcs, key)
		for _, o := range g.Obligs {
			if len(o.ClauseProps) > 0 && !hasProp(o.ClauseProps, id) {
				continue // the clause is tagged for other properties only
			}
			jobs = append(jobs, job{g, o})
		}
		for a := range g.Assumptions {
			res.assumptions[a] = true
		}
		for _, n := range g.Notes {
			res.notes[fc.Name+": "+n] = true
		}
		for n := range g.calleeContracts {
			if cfc := cs.Funcs[n]; cfc != nil && cfc.Trusted {
				res.assumptions["trusted contract used: "+n] = true
			}
		}
	}
	// lemmas and special analyses
	for _, a := range analysesFor(id) {
		gs, errs := a(p, id)
		for _, e := range errs {
			res.errors = append(res.errors, e)
		}
		for _, g := range gs {
			for _, o := range g.Obligs {
				jobs = append(jobs, job{g, o})
			}
			for a := range g.Assumptions {
				res.assumptions[a] = true
			}
			for _, n := range g.Notes {
				res.notes[n] = true
			}
			res.funcs = append(res.funcs, g.Label)
		}
	}
	var tasks []func()
	seenGen := map[*Gen]bool{}
	var gens []*Gen
	for _, j := range jobs {
		res.all = append(res.all, j.o)
		if !seenGen[j.g] {
			seenGen[j.g] = true
			gens = append(gens, j.g)
		}
	}
	for _, g := range gens {
		t := timeout
		if g.FC != nil && g.FC.Timeout > 0 && tier != "thorough" {
			t = g.FC.Timeout
		}
		tasks = append(tasks, g.Tasks(workDir, t)...)
	}
	RunTasks(tasks, 6)
	for _, g := range gens {
		g.Finalize()
	}
	if p.UsedCHA {
		res.assumptions["interface method calls are resolved by class-hierarchy analysis over the loaded packages (implementations in packages that are not loaded are not considered)"] = true
	}
	for k := range p.UsedPureDynamic {
		res.assumptions["calls through the callback field "+k+" are assumed not to write the heap (pure-dynamic directive)"] = true
	}
	for _, n := range p.constGlobalStale {
		res.errors = append(res.errors, "contract-stale: constglobal "+n+" is written or has its address taken outside its package initialiser")
	}
	sort.Strings(res.funcs)
	return res
}

type analysisFn func(p *Program, id string) ([]*Gen, []string)

var analyses = map[string][]analysisFn{}

func analysesFor(id string) []analysisFn {
	return append([]analysisFn{lemmaAnalysis, runSiteRules, runEffectRules, runProtectRules, runWaitGroupRules, runHashedRules, runUnguardedRules, runKeyedRules, runGuardedRules, runPairedRules, runDecidesRules, runConsultedRules}, analyses[id]...)
}

// lemmaAnalysis proves `//@ lemma name C07: expr` blocks as stand-alone queries.
func lemmaAnalysis(p *Program, id string) ([]*Gen, []string) {
	var out []*Gen
	var errs []string
	for _, ax := range p.CS.Axioms {
		if !ax.IsLemma || !hasProp(ax.Props, id) {
			continue
		}
		g := NewGen(p, nil, nil)
		g.BV = ax.Arith == "bv"
		g.Label = "lemma " + ax.Name
		if sp := p.Pkgs[ax.Pkg]; sp != nil {
			g.pkgOf = sp.Pkg
		}
		func() {
			defer func() {
				if r := recover(); r != nil {
					if se, ok := r.(specError); ok {
						errs = append(errs, "contract-stale: lemma "+ax.Name+": "+se.msg)
						return
					}
					panic(r)
				}
			}()
			heap := g.newBaseHeap("lemma")
			g.assume(app(">=", heap.get("$alloc"), "0"))
			fr := &Frame{g: g, top: false, cur: heap.child(), curReach: "true", vals: map[ssa.Value]Val{}, freeVars: map[*ssa.FreeVar]Val{}}
			env := &Env{g: g, pkg: g.pkgOf, bind: map[string]Val{}, heap: fr.cur, old: heap, lemmaFrame: fr}
			body := ax.E
			// top-level universal quantifiers become fresh constants (so real functions can be inlined on them)
			for {
				q, ok := body.(*EQuant)
				if !ok || !q.Forall {
					break
				}
				for _, v := range q.Vars {
					pv := env.paramVal(v, "$")
					g.declConst(pv.S, pv.Sort)
					g.assume(g.typeInv(pv, heap.get("$alloc")))
					env.bind[v.Name] = pv
				}
				body = q.Body
			}
			// hypotheses first (so that calls in the conclusion are inlined under them)
			goal := env.trBool(body)
			pkgShort := ax.Pkg[strings.LastIndex(ax.Pkg, "/")+1:]
			o := &Oblig{Name: pkgShort + ".lemma#" + ax.Name, Kind: "lemma", Goal: goal, Text: ax.Text, Fn: "lemma " + ax.Name, NAsserts: len(g.asserts)}
			for _, pr := range ax.Props {
				if strings.HasPrefix(pr, "replay=") {
					o.ReplayTemplate = pr[7:]
					o.ReplayPkgDir = strings.TrimPrefix(strings.TrimPrefix(ax.Pkg, modPath), "/")
				}
			}
			g.Obligs = append(g.Obligs, o)
			out = append(out, g)
		}()
	}
	return out, errs
}

// ---------------------------------------------------------------------------------------
// Replay files

type replayResult struct {
	path      string
	confirmed bool
}

func writeReplay(repo, id, name, reason string, o *Oblig) replayResult {
	dir := filepath.Join(verifRoot, "replay", id)
	if repoRootOverride {
		dir = filepath.Join(altRoot(), "replay", fmt.Sprintf("%s-alt%d", id, os.Getpid()))
	}
	os.MkdirAll(dir, 0o755)
	path := filepath.Join(dir, sanitize(name)+".json")
	rec := map[string]interface{}{
		"property":   id,
		"obligation": name,
		"reason":     reason,
	}
	confirmed := false
	if o != nil {
		rec["kind"] = o.Kind
		rec["clause"] = o.Text
		rec["position"] = o.Pos
		rec["solver_status"] = o.Status
		rec["solver"] = o.Solver
		rec["solver_output"] = o.Model
		rec["smt_file"] = o.File
		if o.Status == "sat" && o.Replay != nil {
			out, ok := o.Replay(repo, o)
			rec["replay_output"] = out
			rec["replay_confirmed"] = ok
			confirmed = ok
		}
		if o.Witness != "" {
			rec["witness"] = o.Witness
			rec["replay_output"] = o.ReplayOut
			rec["replay_confirmed"] = o.WitnessConfirmed
			if o.WitnessConfirmed {
				confirmed = true
			}
		}
		if o.FailedSub != "" {
			rec["failed_subgoal"] = o.FailedSub
		}
	}
	data, _ := json.MarshalIndent(rec, "", " ")
	os.WriteFile(path, data, 0o644)
	return replayResult{path: path, confirmed: confirmed}
}

// Safety obligations are generated per instruction, so their names move with harmless edits; the shipped
// list records them per function ("<fn>#safety" = every safety obligation of fn discharged).
func isSafetyKind(k string) bool {
	switch k {
	case "bounds", "nil-deref", "overflow", "div-zero", "slice-bounds", "type-assert", "panic-unreachable", "negative-shift", "makeslice-len", "nil-map-write":
		return true
	}
	return false
}
