package main

// `//@ constglobal pkg.Name`: a package-level variable that is written only by its package initialiser with
// constant field values (e.g. ast.InvalidRef). Loads of it yield that constant instead of a heap read. The
// directive is CHECKED, not trusted: every other function of the loaded program is scanned for uses of the
// variable other than loads (of the whole value or of a field); any such use makes the directive stale.

import (
	"go/types"
	"strings"

	"golang.org/x/tools/go/ssa"
)

type constGlobalInfo struct {
	ok     bool
	whole  *ssa.Const
	fields map[int]*ssa.Const
}

func (p *Program) constGlobal(gl *ssa.Global) *constGlobalInfo {
	if p.constGlobals == nil {
		p.constGlobals = map[*ssa.Global]*constGlobalInfo{}
	}
	if ci, ok := p.constGlobals[gl]; ok {
		return ci
	}
	ci := &constGlobalInfo{fields: map[int]*ssa.Const{}}
	p.constGlobals[gl] = ci
	declared := false
	want := gl.Pkg.Pkg.Name() + "." + gl.Name()
	for _, d := range p.CS.Dirs {
		if d.Kind == "constglobal" && strings.TrimSpace(d.Text) == want {
			declared = true
		}
	}
	if !declared {
		return ci
	}
	good := true
	onlyLoads := func(v ssa.Value) bool {
		for _, r := range *v.Referrers() {
			switch u := r.(type) {
			case *ssa.UnOp:
			case *ssa.DebugRef:
			default:
				_ = u
				return false
			}
		}
		return true
	}
	for fn := range p.AllFuncs {
		isInit := fn.Pkg == gl.Pkg && fn.Name() == "init" && fn.Parent() == nil
		for _, b := range fn.Blocks {
			for _, in := range b.Instrs {
				uses := false
				for _, op := range in.Operands(nil) {
					if *op == ssa.Value(gl) {
						uses = true
					}
				}
				if !uses {
					continue
				}
				switch x := in.(type) {
				case *ssa.UnOp: // load
				case *ssa.DebugRef:
				case *ssa.FieldAddr:
					if isInit {
						for _, r := range *x.Referrers() {
							if st, ok := r.(*ssa.Store); ok && st.Addr == ssa.Value(x) {
								if k, ok := st.Val.(*ssa.Const); ok {
									ci.fields[x.Field] = k
									continue
								}
								good = false
							}
						}
					} else if !onlyLoads(x) {
						good = false
					}
				case *ssa.Store:
					if isInit && x.Addr == ssa.Value(gl) {
						if k, ok := x.Val.(*ssa.Const); ok {
							ci.whole = k
							continue
						}
					}
					good = false
				default:
					good = false
				}
			}
		}
	}
	ci.ok = good
	if !good {
		p.constGlobalStale = append(p.constGlobalStale, want)
	}
	return ci
}

// constGlobalVal returns the constant value of a checked constglobal variable.
func (g *Gen) constGlobalVal(gl *ssa.Global) (Val, bool) {
	ci := g.P.constGlobal(gl)
	if !ci.ok {
		return Val{}, false
	}
	t := gl.Type().Underlying().(*types.Pointer).Elem()
	if ci.whole != nil {
		return g.constVal(ci.whole), true
	}
	st, ok := t.Underlying().(*types.Struct)
	if !ok {
		if len(ci.fields) == 0 {
			return g.zero(t), true
		}
		return Val{}, false
	}
	var fs []Val
	for i := 0; i < st.NumFields(); i++ {
		if k, ok := ci.fields[i]; ok {
			fs = append(fs, g.constVal(k))
		} else {
			fs = append(fs, g.zero(st.Field(i).Type()))
		}
	}
	g.Assumptions["constglobal "+gl.Pkg.Pkg.Name()+"."+gl.Name()+": checked to be written only by its package initialiser with constants; loads yield that constant"] = true
	return g.mkStruct(t, fs), true
}
