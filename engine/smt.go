package main

// Sorts, values and low-level SMT-LIB construction shared by the VC generators.

import (
	"fmt"
	"go/constant"
	"go/token"
	"go/types"
	"hash/fnv"
	"math"
	"math/big"
	"regexp"
	"strings"
)

// Val is an SMT term together with the Go type it models (nil for pure spec values).
type Val struct {
	S       string
	Sort    string
	GT      types.Type
	Untyped bool       // untyped integer constant; S is a decimal literal
	Tuple   []Val      // for multi-value results
	Place   *Place     // for pointer values with known provenance
	Big     *big.Int   // constant value when known
	ElemGT  types.Type // element type of a raw array (seq) value
}

// Place describes where a pointer value points, when known syntactically.
type Place struct {
	Kind    int // 0 generic, 1 field, 2 leaf-array element
	Ptr     string
	Base    string        // field: struct pointer ; elem: array pointer
	Struct  *types.Struct // field
	Named   types.Type    // field: the (named) struct type
	Idx     int           // field index
	Index   string        // elem index term
	Priv    string        // private cell key (Kind 5)
	Root    types.Type    // field: struct type at which the chain of non-escaping struct-valued fields starts
	RootPtr string        // field: pointer to that struct
	Path    string        // field: index path below Root, e.g. "2.0"
}

func app(f string, args ...string) string {
	return "(" + f + " " + strings.Join(args, " ") + ")"
}
func and(xs ...string) string {
	var ys []string
	for _, x := range xs {
		if x == "true" || x == "" {
			continue
		}
		if x == "false" {
			return "false"
		}
		ys = append(ys, x)
	}
	if len(ys) == 0 {
		return "true"
	}
	if len(ys) == 1 {
		return ys[0]
	}
	return "(and " + strings.Join(ys, " ") + ")"
}
func or(xs ...string) string {
	var ys []string
	for _, x := range xs {
		if x == "false" || x == "" {
			continue
		}
		if x == "true" {
			return "true"
		}
		ys = append(ys, x)
	}
	if len(ys) == 0 {
		return "false"
	}
	if len(ys) == 1 {
		return ys[0]
	}
	return "(or " + strings.Join(ys, " ") + ")"
}
func not(x string) string {
	if x == "true" {
		return "false"
	}
	if x == "false" {
		return "true"
	}
	if strings.HasPrefix(x, "(not ") && balanced(x[5:len(x)-1]) {
		return x[5 : len(x)-1]
	}
	return "(not " + x + ")"
}
func balanced(s string) bool {
	d := 0
	for i := 0; i < len(s); i++ {
		if s[i] == '(' {
			d++
		} else if s[i] == ')' {
			d--
			if d < 0 {
				return false
			}
		}
	}
	return d == 0
}
func implies(a, b string) string {
	if a == "true" {
		return b
	}
	if b == "true" || a == "false" {
		return "true"
	}
	return "(=> " + a + " " + b + ")"
}
func eq(a, b string) string { return "(= " + a + " " + b + ")" }
func ite(c, a, b string) string {
	if c == "true" {
		return a
	}
	if c == "false" {
		return b
	}
	if a == b {
		return a
	}
	return "(ite " + c + " " + a + " " + b + ")"
}

func sanitize(s string) string {
	var b strings.Builder
	for i := 0; i < len(s); i++ {
		c := s[i]
		if (c >= 'a' && c <= 'z') || (c >= 'A' && c <= 'Z') || (c >= '0' && c <= '9') || c == '_' {
			b.WriteByte(c)
		} else {
			b.WriteByte('_')
		}
	}
	return b.String()
}

func shortHash(s string) string {
	h := fnv.New32a()
	h.Write([]byte(s))
	return fmt.Sprintf("%06x", h.Sum32()&0xffffff)
}

var reByteRune = regexp.MustCompile(`\b(byte|rune)\b`)

// canonBasic replaces the alias spellings byte/rune by uint8/int32 (they denote the same memory).
func canonBasic(s string) string {
	return reByteRune.ReplaceAllStringFunc(s, func(m string) string {
		if m == "byte" {
			return "uint8"
		}
		return "int32"
	})
}

func typeKey(t types.Type) string {
	full := canonBasic(types.TypeString(t, func(p *types.Package) string { return p.Path() }))
	short := canonBasic(types.TypeString(t, func(p *types.Package) string { return p.Name() }))
	s := sanitize(short)
	if len(s) > 40 {
		s = s[:40]
	}
	if s != short {
		s += "_" + shortHash(full)
	}
	return s
}

// intInfo returns (bits, signed, ok) for integer-kinded basic types.
func intInfo(t types.Type) (int, bool, bool) {
	b, ok := t.Underlying().(*types.Basic)
	if !ok {
		return 0, false, false
	}
	switch b.Kind() {
	case types.Int, types.Int64:
		return 64, true, true
	case types.Int8:
		return 8, true, true
	case types.Int16:
		return 16, true, true
	case types.Int32:
		return 32, true, true
	case types.Uint, types.Uint64, types.Uintptr:
		return 64, false, true
	case types.Uint8:
		return 8, false, true
	case types.Uint16:
		return 16, false, true
	case types.Uint32:
		return 32, false, true
	case types.UntypedInt, types.UntypedRune:
		return 64, true, true
	}
	return 0, false, false
}

func isFloat(t types.Type) bool {
	b, ok := t.Underlying().(*types.Basic)
	return ok && (b.Kind() == types.Float64 || b.Kind() == types.Float32 || b.Kind() == types.UntypedFloat)
}
func isFloat32(t types.Type) bool {
	b, ok := t.Underlying().(*types.Basic)
	return ok && b.Kind() == types.Float32
}
func isString(t types.Type) bool {
	b, ok := t.Underlying().(*types.Basic)
	return ok && (b.Kind() == types.String || b.Kind() == types.UntypedString)
}
func isBool(t types.Type) bool {
	b, ok := t.Underlying().(*types.Basic)
	return ok && (b.Kind() == types.Bool || b.Kind() == types.UntypedBool)
}

func pow2(n int) *big.Int { return new(big.Int).Lsh(big.NewInt(1), uint(n)) }

func intRange(bits int, signed bool) (*big.Int, *big.Int) {
	if signed {
		lo := new(big.Int).Neg(pow2(bits - 1))
		hi := new(big.Int).Sub(pow2(bits-1), big.NewInt(1))
		return lo, hi
	}
	return big.NewInt(0), new(big.Int).Sub(pow2(bits), big.NewInt(1))
}

func smtInt(v *big.Int) string {
	if v.Sign() < 0 {
		return "(- " + new(big.Int).Neg(v).String() + ")"
	}
	return v.String()
}

func bvLit(v *big.Int, bits int) string {
	m := new(big.Int).Mod(v, pow2(bits))
	return fmt.Sprintf("(_ bv%s %d)", m.String(), bits)
}

func fpLit64(f float64) string {
	b := math.Float64bits(f)
	sign := b >> 63
	exp := (b >> 52) & 0x7ff
	man := b & ((1 << 52) - 1)
	return fmt.Sprintf("(fp #b%b #b%011b #b%052b)", sign, exp, man)
}
func fpLit32(f float32) string {
	b := math.Float32bits(f)
	sign := b >> 31
	exp := (b >> 23) & 0xff
	man := b & ((1 << 23) - 1)
	return fmt.Sprintf("(fp #b%b #b%08b #b%023b)", sign, exp, man)
}

func constBig(c constant.Value) (*big.Int, bool) {
	c = constant.ToInt(c)
	if c.Kind() != constant.Int {
		return nil, false
	}
	if v, ok := constant.Int64Val(c); ok {
		return big.NewInt(v), true
	}
	bi, ok := new(big.Int).SetString(c.ExactString(), 10)
	return bi, ok
}

var _ = token.ADD

// ---------------------------------------------------------------------------------------
// Prelude

func prelude(bv bool, useStr bool) string {
	idx := "Int"
	byteS := "Int"
	if bv {
		idx = "(_ BitVec 64)"
		byteS = "(_ BitVec 8)"
	}
	var b strings.Builder
	b.WriteString("(set-option :produce-models true)\n")
	b.WriteString("(set-logic ALL)\n")
	fmt.Fprintf(&b, "(declare-datatypes ((Path 0)) (((root) (fld (fld_p Path) (fld_i Int)) (elem (elem_p Path) (elem_i %s)))))\n", idx)
	b.WriteString("(declare-datatypes ((Ptr 0)) (((mk-ptr (obj Int) (path Path)))))\n")
	b.WriteString("(define-fun nilptr () Ptr (mk-ptr 0 root))\n")
	fmt.Fprintf(&b, "(declare-datatypes ((Slice 0)) (((mk-slice (s_arr Ptr) (s_off %s) (s_len %s) (s_cap %s)))))\n", idx, idx, idx)
	if bv {
		b.WriteString("(declare-fun sl.idx (Slice (_ BitVec 64)) (_ BitVec 64))\n")
		b.WriteString("(assert (forall ((s Slice) (i (_ BitVec 64))) (! (= (sl.idx s i) (bvadd (s_off s) i)) :pattern ((sl.idx s i)))))\n")
	} else {
		b.WriteString("(declare-fun sl.idx (Slice Int) Int)\n")
		b.WriteString("(assert (forall ((s Slice) (i Int)) (! (= (sl.idx s i) (+ (s_off s) i)) :pattern ((sl.idx s i)))))\n")
	}
	b.WriteString("(declare-datatypes ((Iface 0)) (((mk-iface (i_tag Int) (i_val Ptr)))))\n")
	b.WriteString("(define-fun niliface () Iface (mk-iface 0 nilptr))\n")
	b.WriteString("(declare-sort Str 0)\n")
	fmt.Fprintf(&b, "(declare-fun gstr.len (Str) %s)\n", idx)
	fmt.Fprintf(&b, "(declare-fun gstr.at (Str %s) %s)\n", idx, byteS)
	b.WriteString("(declare-fun gstr.lt (Str Str) Bool)\n")
	b.WriteString("(declare-const gstr.empty Str)\n")
	if bv {
		b.WriteString("(assert (= (gstr.len gstr.empty) (_ bv0 64)))\n")
		if useStr {
			b.WriteString("(assert (forall ((s Str)) (! (and (bvsge (gstr.len s) (_ bv0 64)) (bvsle (gstr.len s) (_ bv281474976710656 64))) :pattern ((gstr.len s)))))\n")
			b.WriteString("(assert (forall ((s Str)) (! (=> (= (gstr.len s) (_ bv0 64)) (= s gstr.empty)) :pattern ((gstr.len s)))))\n")
		}
	} else {
		b.WriteString("(assert (= (gstr.len gstr.empty) 0))\n")
		if useStr {
			b.WriteString("(assert (forall ((s Str)) (! (and (>= (gstr.len s) 0) (<= (gstr.len s) 281474976710656)) :pattern ((gstr.len s)))))\n")
			b.WriteString("(assert (forall ((s Str)) (! (=> (= (gstr.len s) 0) (= s gstr.empty)) :pattern ((gstr.len s)))))\n")
			b.WriteString("(assert (forall ((s Str) (i Int)) (! (and (<= 0 (gstr.at s i)) (<= (gstr.at s i) 255)) :pattern ((gstr.at s i)))))\n")
		}
		b.WriteString("(define-fun go.div ((x Int) (y Int)) Int (ite (>= x 0) (ite (> y 0) (div x y) (- (div x (- y)))) (ite (> y 0) (- (div (- x) y)) (div (- x) (- y)))))\n")
		b.WriteString("(define-fun go.rem ((x Int) (y Int)) Int (- x (* y (go.div x y))))\n")
		b.WriteString("(declare-fun int.and (Int Int) Int)\n(declare-fun int.or (Int Int) Int)\n(declare-fun int.xor (Int Int) Int)\n(declare-fun int.shl (Int Int) Int)\n(declare-fun int.shr (Int Int) Int)\n")
	}
	b.WriteString("(define-fun fp.sameValue64 ((a Float64) (b Float64)) Bool (= a b))\n")
	return b.String()
}

// strict total order axioms for gstr.lt (added on demand)
const strLtAxioms = `(assert (forall ((a Str)) (! (not (gstr.lt a a)) :pattern ((gstr.lt a a)))))
(assert (forall ((a Str) (b Str)) (! (or (gstr.lt a b) (gstr.lt b a) (= a b)) :pattern ((gstr.lt a b)))))
(assert (forall ((a Str) (b Str)) (! (not (and (gstr.lt a b) (gstr.lt b a))) :pattern ((gstr.lt a b)))))
(assert (forall ((a Str) (b Str) (c Str)) (! (=> (and (gstr.lt a b) (gstr.lt b c)) (gstr.lt a c)) :pattern ((gstr.lt a b) (gstr.lt b c)))))
`
