package main

import (
	"fmt"
	"go/types"
	"math/big"
	"strings"

	"golang.org/x/tools/go/ssa"
)

func fullName(fn *ssa.Function) string {
	pkg, name := ContractName(fn)
	if pkg == "" {
		return name
	}
	return pkg + "." + name
}

var intrinsics = map[string]bool{
	"math.IsNaN": true, "math.IsInf": true, "math.Abs": true, "math.Signbit": true, "math.Floor": true, "math.Ceil": true,
	"math.Trunc": true, "math.Sqrt": true, "math.Float64bits": true, "math.Float64frombits": true, "math.Inf": true, "math.NaN": true,
	"math.Copysign": true, "math.Max": false, "math.Min": false, "math.RoundToEven": true, "math.Round": true,
	"strings.HasPrefix": true, "strings.HasSuffix": true,
	"sync.(*Mutex).Lock": true, "sync.(*Mutex).Unlock": true, "sync.(*RWMutex).Lock": true, "sync.(*RWMutex).Unlock": true,
	"sync.(*RWMutex).RLock": true, "sync.(*RWMutex).RUnlock": true,
	"sync.(*WaitGroup).Add": true, "sync.(*WaitGroup).Done": true, "sync.(*WaitGroup).Wait": true,
}

func (g *Gen) isIntrinsic(fn *ssa.Function) bool {
	n := fullName(fn)
	if intrinsics[n] {
		return true
	}
	return g.pureUF(fn) != ""
}

// pureUF returns the UF name if fn is declared `//@ pure` (modelled as an uninterpreted function of its arguments).
func (g *Gen) pureUF(fn *ssa.Function) string {
	n := fullName(fn)
	for _, d := range g.P.CS.Dirs {
		if d.Kind == "pure" {
			for _, f := range strings.Fields(d.Text) {
				if f == n {
					return "uf!" + sanitize(n)
				}
			}
		}
	}
	return ""
}

func (f *Frame) intrinsic(name string, args []Val, rt types.Type) (Val, bool) {
	g := f.g
	switch name {
	case "math.IsNaN":
		g.Assumptions["intrinsic: math.IsNaN = fp.isNaN"] = true
		return g.boolVal(app("fp.isNaN", args[0].S)), true
	case "math.IsInf":
		g.Assumptions["intrinsic: math.IsInf(f, sign) = IEEE infinity test"] = true
		s := args[1].S
		zero := g.intLit(bigZero, tInt).S
		gt := g.icmp(">", s, zero, true)
		lt := g.icmp("<", s, zero, true)
		pos := and(app("fp.isInfinite", args[0].S), app("fp.isPositive", args[0].S))
		neg := and(app("fp.isInfinite", args[0].S), app("fp.isNegative", args[0].S))
		return g.boolVal(ite(gt, pos, ite(lt, neg, app("fp.isInfinite", args[0].S)))), true
	case "math.Abs":
		g.Assumptions["intrinsic: math.Abs = fp.abs"] = true
		return Val{S: app("fp.abs", args[0].S), Sort: "Float64", GT: rt}, true
	case "math.Signbit":
		g.Assumptions["intrinsic: math.Signbit = sign bit of the IEEE encoding (NaN sign unconstrained)"] = true
		nb := g.freshConst("nansign", "Bool")
		return g.boolVal(ite(app("fp.isNaN", args[0].S), nb, app("fp.isNegative", args[0].S))), true
	case "math.Floor":
		g.Assumptions["intrinsic: math.Floor = fp.roundToIntegral RTN"] = true
		return Val{S: app("fp.roundToIntegral", "RTN", args[0].S), Sort: "Float64", GT: rt}, true
	case "math.Ceil":
		g.Assumptions["intrinsic: math.Ceil = fp.roundToIntegral RTP"] = true
		return Val{S: app("fp.roundToIntegral", "RTP", args[0].S), Sort: "Float64", GT: rt}, true
	case "math.Trunc":
		g.Assumptions["intrinsic: math.Trunc = fp.roundToIntegral RTZ"] = true
		return Val{S: app("fp.roundToIntegral", "RTZ", args[0].S), Sort: "Float64", GT: rt}, true
	case "math.Round":
		g.Assumptions["intrinsic: math.Round = fp.roundToIntegral RNA (half away from zero)"] = true
		return Val{S: app("fp.roundToIntegral", "RNA", args[0].S), Sort: "Float64", GT: rt}, true
	case "math.RoundToEven":
		g.Assumptions["intrinsic: math.RoundToEven = fp.roundToIntegral RNE"] = true
		return Val{S: app("fp.roundToIntegral", "RNE", args[0].S), Sort: "Float64", GT: rt}, true
	case "math.Sqrt":
		g.Assumptions["intrinsic: math.Sqrt = fp.sqrt RNE"] = true
		return Val{S: app("fp.sqrt", "RNE", args[0].S), Sort: "Float64", GT: rt}, true
	case "math.Inf":
		zero := g.intLit(bigZero, tInt).S
		return Val{S: ite(g.icmp(">=", args[0].S, zero, true), "(_ +oo 11 53)", "(_ -oo 11 53)"), Sort: "Float64", GT: rt}, true
	case "math.NaN":
		return Val{S: "(_ NaN 11 53)", Sort: "Float64", GT: rt}, true
	case "math.Copysign":
		return Val{S: ite(eq(app("fp.isNegative", args[0].S), app("fp.isNegative", args[1].S)), args[0].S, app("fp.neg", args[0].S)), Sort: "Float64", GT: rt}, !true
	case "strings.HasPrefix":
		g.Assumptions["intrinsic: strings.HasPrefix(s,p) = len(p)<=len(s) && s[:len(p)]==p"] = true
		s, p := args[0].S, args[1].S
		if lit, ok := g.strLitText(p); ok && len(lit) <= 32 {
			// a literal prefix: byte-wise (exact; Str has no extensionality axiom, so the negation of a
			// Str equality would say nothing)
			cs := []string{g.icmp("<=", g.idxLit(int64(len(lit))), app("gstr.len", s), true)}
			for i := 0; i < len(lit); i++ {
				cs = append(cs, eq(app("gstr.at", s, g.idxLit(int64(i))), g.intLit(big.NewInt(int64(lit[i])), tByte).S))
			}
			return g.boolVal(and(cs...)), true
		}
		sub := g.strSub(s, g.idxLit(0), app("gstr.len", p))
		return g.boolVal(and(g.icmp("<=", app("gstr.len", p), app("gstr.len", s), true), eq(sub.S, p))), true
	case "strings.HasSuffix":
		g.Assumptions["intrinsic: strings.HasSuffix(s,p) = len(p)<=len(s) && s[len(s)-len(p):]==p"] = true
		s, p := args[0].S, args[1].S
		if lit, ok := g.strLitText(p); ok && len(lit) <= 32 {
			cs := []string{g.icmp("<=", g.idxLit(int64(len(lit))), app("gstr.len", s), true)}
			for i := 0; i < len(lit); i++ {
				at := g.isub(app("gstr.len", s), g.idxLit(int64(len(lit)-i)))
				cs = append(cs, eq(app("gstr.at", s, at), g.intLit(big.NewInt(int64(lit[i])), tByte).S))
			}
			return g.boolVal(and(cs...)), true
		}
		sub := g.strSub(s, g.isub(app("gstr.len", s), app("gstr.len", p)), app("gstr.len", s))
		return g.boolVal(and(g.icmp("<=", app("gstr.len", p), app("gstr.len", s), true), eq(sub.S, p))), true
	}
	if name == "sync.(*WaitGroup).Wait" && len(args) == 1 {
		// ghost: remember that this wait group has been waited on
		g.ensureKey("G|waited", "Bool")
		f.cur.set("G|waited", app("store", f.cur.get("G|waited"), args[0].S, "true"))
		g.Assumptions["sync.WaitGroup.Wait is modelled by a ghost flag (waited); happens-before guarantees are those of the Go memory model"] = true
		return Val{Sort: "Tuple"}, true
	}
	if strings.HasPrefix(name, "sync.(*") {
		g.Assumptions["sync primitives: no effect on the modelled heap; ordering guarantees not modelled here"] = true
		return Val{Sort: "Tuple"}, true
	}
	return Val{}, false
}

func (f *Frame) call(c *ssa.CallCommon, in ssa.Instruction) Val {
	g := f.g
	var rt types.Type = c.Signature().Results()
	if c.Signature().Results().Len() == 1 {
		rt = c.Signature().Results().At(0).Type()
	}
	if c.IsInvoke() {
		g.note("dynamic (interface) call " + c.Method.Name() + ": havoc")
		return f.havocCall(&ModSet{All: true}, rt, c.Method.Name())
	}
	var args []Val
	for _, a := range c.Args {
		args = append(args, f.val(a))
	}
	switch cv := c.Value.(type) {
	case *ssa.Builtin:
		return f.builtin(cv.Name(), c, args, in, rt)
	case *ssa.Function:
		return f.staticCall(cv, args, in, rt)
	case *ssa.MakeClosure:
		if cf, ok := cv.Fn.(*ssa.Function); ok {
			// closure called directly: bind free variables and treat as a static call
			var all []Val
			for _, b := range cv.Bindings {
				all = append(all, f.val(b))
			}
			return f.closureCall(cf, all, args, in, rt)
		}
	}
	if g.P.assumedPureDynamic(c.Value) {
		// callback field named in a `pure-dynamic` directive: assumed not to write anything (listed assumption)
		g.Assumptions["pure-dynamic: calls through the named callback field are assumed not to modify the heap"] = true
		return f.havocCall(&ModSet{Maps: map[string]bool{}}, rt, "dyn")
	}
	g.note("dynamic call through a function value: havoc")
	return f.havocCall(&ModSet{All: true}, rt, "dyn")
}

func (f *Frame) havocCall(ms *ModSet, rt types.Type, why string) Val {
	g := f.g
	f.cur = f.cur.havoc(ms, sanitize(why))
	r := g.havocVal("call_"+why, rt)
	f.assumeTypeInv(r)
	return r
}

func (f *Frame) assumeTypeInv(r Val) {
	g := f.g
	if r.Sort == "Tuple" {
		for _, t := range r.Tuple {
			f.assumeTypeInv(t)
		}
		return
	}
	g.assumeDef(r.S, implies(f.curReach, g.typeInv(r, f.alloc())))
}

func (f *Frame) closureCall(cf *ssa.Function, bindings []Val, args []Val, in ssa.Instruction, rt types.Type) Val {
	g := f.g
	if g.inlineDepth < 3 && inlinable(cf) && g.P.ContractFor(cf) == nil {
		return f.inline(cf, args, bindings, rt)
	}
	ms := g.P.ModSetOf(cf)
	return f.havocCall(ms, rt, cf.Name())
}

func inlinable(fn *ssa.Function) bool {
	if fn.Blocks == nil || len(fn.Blocks) > 40 {
		return false
	}
	n := 0
	for _, b := range fn.Blocks {
		n += len(b.Instrs)
		for _, s := range b.Succs {
			if s.Dominates(b) {
				return false // loops need invariants
			}
		}
		for _, in := range b.Instrs {
			switch in.(type) {
			case *ssa.Go, *ssa.Defer, *ssa.Select:
				return false
			}
			if ci, ok := in.(ssa.CallInstruction); ok {
				if callee := ci.Common().StaticCallee(); callee == fn {
					return false
				}
			}
		}
	}
	return n <= 250
}

func (f *Frame) inline(fn *ssa.Function, args []Val, bindings []Val, rt types.Type) Val {
	g := f.g
	g.inlineDepth++
	g.inlineSeq++
	sub := g.newFrame(fn, fmt.Sprintf("%s_i%d", f.sfx, g.inlineSeq), false)
	for i, fv := range fn.FreeVars {
		if i < len(bindings) {
			sub.freeVars[fv] = bindings[i]
		}
	}
	sub.Walk(args, f.cur, f.curReach)
	g.inlineDepth--
	g.inlined[fullName(fn)] = true
	if sub.exitReach == "false" {
		// callee never returns
		f.cur = sub.entry.child()
		g.assume(not(f.curReach))
	} else {
		f.cur = sub.exitHeap.child()
		// if the callee may panic on some paths, those paths do not continue
		g.assume(implies(f.curReach, sub.exitReach))
	}
	if len(sub.results) == 1 {
		return sub.results[0]
	}
	return Val{Sort: "Tuple", GT: rt, Tuple: sub.results}
}

func (f *Frame) staticCall(fn *ssa.Function, args []Val, in ssa.Instruction, rt types.Type) Val {
	g := f.g
	name := fullName(fn)
	if intrinsics[name] {
		if v, ok := f.intrinsic(name, args, rt); ok {
			return v
		}
	}
	if uf := g.pureUF(fn); uf != "" {
		var sorts, as []string
		for _, a := range args {
			sorts = append(sorts, a.Sort)
			as = append(as, a.S)
		}
		g.declFun(uf, sorts, g.sortOf(rt))
		g.Assumptions["pure: "+name+" is modelled as an uninterpreted function of its arguments (plus listed axioms)"] = true
		g.includeAxiomsFor(name)
		r := Val{S: app(uf, as...), Sort: g.sortOf(rt), GT: rt}
		f.assumeTypeInv(r)
		return r
	}
	if fc := g.P.ContractFor(fn); fc != nil {
		if fc.Opts["pure"] != "" {
			return g.applyPure(fn, fc, args, f.curReach)
		}
		if fc.Opts["heappure"] != "" {
			return f.applyHeapPure(fn, fc, args, in, rt)
		}
		return f.applyContract(fn, fc, args, in, rt)
	}
	if g.inlineDepth < 4 && inlinable(fn) && (g.P.inModule(fn) || tinyLeaf(fn)) {
		return f.inline(fn, args, nil, rt)
	}
	if fn.Blocks != nil || true {
		g.note("call to " + name + " without a contract: results and inferred frame havocked")
	}
	return f.havocCall(g.P.ModSetOf(fn), rt, fn.Name())
}

// applyContract replaces a call by the callee's contract.
func (f *Frame) applyContract(fn *ssa.Function, fc *FuncContract, args []Val, in ssa.Instruction, rt types.Type) Val {
	g := f.g
	name := fullName(fn)
	g.calleeContracts[name] = true
	bind := map[string]Val{}
	for i, p := range fn.Params {
		if i < len(args) {
			bind[p.Name()] = args[i]
		}
	}
	pre := f.cur
	envPre := &Env{g: g, f: nil, heap: pre, old: pre, bind: bind, pkg: fn.Pkg.Pkg, reach: f.curReach}
	k := 0
	for _, c := range fc.Clauses {
		if c.Kind != "requires" {
			continue
		}
		goal := envPre.trBool(c.E)
		if f.top {
			g.callSeq++
			g.addOblig(&Oblig{Name: f.obName(fmt.Sprintf("call%d.%s.requires", g.callSeq, fn.Name()), c, k), Kind: "call-requires",
				Goal: implies(f.curReach, goal), Pos: f.posOf(in), Text: c.Text})
		}
		g.assume(implies(f.curReach, goal)) // continue under the precondition
		k++
	}
	var ms *ModSet
	if fc.HasMods {
		ms = g.P.DeclaredMods(fc)
	} else {
		ms = g.P.ModSetOf(fn)
	}
	f.cur = pre.havoc(ms, fn.Name())
	res := g.havocVal("res_"+fn.Name(), rt)
	f.assumeTypeInv(res)
	defs := ""
	if res.Sort == "Tuple" {
		for _, t := range res.Tuple {
			defs += " " + t.S
		}
	} else if res.S != "" {
		defs = res.S
	}
	if ep := f.cur.havocEpoch(); ep != "" {
		defs += " *@" + ep
	}
	var results []Val
	if res.Sort == "Tuple" {
		results = res.Tuple
	} else if fn.Signature.Results().Len() == 1 {
		results = []Val{res}
	}
	bind2 := map[string]Val{}
	for k, v := range bind {
		bind2[k] = v
	}
	for i := 0; i < fn.Signature.Results().Len(); i++ {
		if n := fn.Signature.Results().At(i).Name(); n != "" && n != "_" {
			bind2[n] = results[i]
		}
	}
	envPost := &Env{g: g, f: nil, heap: f.cur, old: pre, bind: bind2, results: results, pkg: fn.Pkg.Pkg, reach: f.curReach}
	for _, c := range fc.Clauses {
		if c.Kind != "ensures" {
			continue
		}
		g.assumeDef(defs, implies(f.curReach, envPost.trBool(c.E)))
	}
	if fc.Trusted {
		g.Assumptions["trusted contract (body not verified): "+name] = true
	}
	return res
}

func (f *Frame) builtin(name string, c *ssa.CallCommon, args []Val, in ssa.Instruction, rt types.Type) Val {
	g := f.g
	switch name {
	case "len", "cap":
		x := args[0]
		switch u := x.GT.Underlying().(type) {
		case *types.Slice:
			if name == "len" {
				return Val{S: app("s_len", x.S), Sort: g.idxSort(), GT: tInt}
			}
			return Val{S: app("s_cap", x.S), Sort: g.idxSort(), GT: tInt}
		case *types.Basic:
			return Val{S: app("gstr.len", x.S), Sort: g.idxSort(), GT: tInt}
		case *types.Array:
			return Val{S: g.idxLit(u.Len()), Sort: g.idxSort(), GT: tInt}
		case *types.Pointer:
			if at, ok := u.Elem().Underlying().(*types.Array); ok {
				return Val{S: g.idxLit(at.Len()), Sort: g.idxSort(), GT: tInt}
			}
		case *types.Map:
			g.declFun("map.len", []string{"Ptr", g.heapMapSort(g.mapDomKey(u))}, g.idxSort())
			dk, _ := g.mapKeys(u)
			r := Val{S: app("map.len", x.S, f.cur.get(dk)), Sort: g.idxSort(), GT: tInt}
			g.assume(g.icmp(">=", r.S, g.idxLit(0), true))
			return r
		}
		r := g.havocVal("len", tInt)
		g.assume(g.icmp(">=", r.S, g.idxLit(0), true))
		return r
	case "append":
		return f.appendCall(c, args, in)
	case "copy":
		return f.copyCall(c, args, in)
	case "delete":
		m := args[0]
		mt := m.GT.Underlying().(*types.Map)
		dk, _ := g.mapKeys(mt)
		d := f.cur.get(dk)
		f.cur.set(dk, app("store", d, m.S, app("store", app("select", d, m.S), args[1].S, "false")))
		return Val{Sort: "Tuple"}
	case "ssa:wrapnilchk":
		return args[0]
	case "print", "println":
		return Val{Sort: "Tuple"}
	case "min", "max":
		if len(args) == 2 {
			if _, signed, ok := intInfo(args[0].GT); ok {
				lt := g.icmp("<", args[0].S, args[1].S, signed)
				if name == "min" {
					return Val{S: ite(lt, args[0].S, args[1].S), Sort: args[0].Sort, GT: rt}
				}
				return Val{S: ite(lt, args[1].S, args[0].S), Sort: args[0].Sort, GT: rt}
			}
		}
	case "recover":
		return g.havocVal("recover", rt)
	}
	g.note("unsupported builtin " + name)
	return f.havocCall(&ModSet{All: true}, rt, name)
}

func (g *Gen) mapDomKey(mt *types.Map) string {
	dk, _ := g.mapKeys(mt)
	return dk
}

func (f *Frame) appendCall(c *ssa.CallCommon, args []Val, in ssa.Instruction) Val {
	g := f.g
	s, t := args[0], args[1]
	st := s.GT.Underlying().(*types.Slice)
	et := st.Elem()
	g.Assumptions["append: result modelled with a fresh backing array (no aliasing of spare capacity)"] = true
	var tlen string
	tIsStr := isString(t.GT)
	if tIsStr {
		tlen = app("gstr.len", t.S)
	} else {
		tlen = app("s_len", t.S)
	}
	newLen := g.freshConst("applen", g.idxSort())
	g.assumeDef(newLen, eq(newLen, g.iadd(app("s_len", s.S), tlen)))
	newCap := g.freshConst("appcap", g.idxSort())
	g.assumeDef(newCap, g.icmp("<=", newLen, newCap, true))
	if g.BV {
		g.assumeDef(newCap, app("bvsle", newCap, "(_ bv281474976710656 64)"))
		g.assumeDef(newLen, app("bvsge", newLen, app("s_len", s.S))) // lengths do not wrap (memory is finite)
	} else {
		g.assumeDef(newCap, app("<=", newCap, "281474976710656"))
	}
	p := f.newObjID()
	pn := g.freshConst("append", "Ptr")
	g.assumeDef(pn, eq(pn, p))
	res := Val{S: app("mk-slice", pn, g.idxLit(0), newLen, newCap), Sort: "Slice", GT: s.GT}
	if !isLeafElem(et) {
		g.note("append on a slice of structs/arrays: element contents are not modelled")
		ms := &ModSet{Maps: map[string]bool{}}
		g.P.typeKeys(et, true, ms)
		// only cells of the fresh array are unknown; model coarsely by havocking the field maps
		f.cur = f.cur.havoc(ms, "append")
		return res
	}
	key := "E|" + typeKey(et)
	es := g.sortOf(et)
	g.ensureKey(key, es)
	e := f.cur.get(key)
	ix := g.idxSort()
	arr := g.freshConst("apparr", fmt.Sprintf("(Array %s %s)", ix, es))
	olds := app("select", e, app("s_arr", s.S))
	g.assumeDef(arr, fmt.Sprintf("(forall ((i %s)) (! (=> (and %s %s) (= (select %s i) (select %s %s))) :pattern ((select %s i))))", ix,
		g.icmp("<=", g.idxLit(0), "i", true), g.icmp("<", "i", app("s_len", s.S), true), arr, olds, g.iadd(app("s_off", s.S), "i"), arr))
	// appended part: expand small constant-length literal tails, otherwise quantify
	n := constSliceLen(c.Args[1])
	elemAt := func(j string) string {
		if tIsStr {
			return app("gstr.at", t.S, j)
		}
		return app("select", app("select", e, app("s_arr", t.S)), g.iadd(app("s_off", t.S), j))
	}
	if n >= 0 && n <= 8 {
		for j := 0; j < n; j++ {
			g.assumeDef(arr, eq(app("select", arr, g.iadd(app("s_len", s.S), g.idxLit(int64(j)))), elemAt(g.idxLit(int64(j)))))
		}
	} else {
		g.assumeDef(arr, fmt.Sprintf("(forall ((j %s)) (! (=> (and %s %s) (= (select %s %s) %s)) :pattern (%s)))", ix,
			g.icmp("<=", g.idxLit(0), "j", true), g.icmp("<", "j", tlen, true), arr, g.iadd(app("s_len", s.S), "j"), elemAt("j"), elemAt("j")))
	}
	f.cur.set(key, app("store", e, pn, arr))
	return res
}

// constSliceLen recognises `slice (new [N]T)[:]`, the shape go/ssa gives variadic append arguments.
func constSliceLen(v ssa.Value) int {
	sl, ok := v.(*ssa.Slice)
	if !ok || sl.Low != nil || sl.High != nil || sl.Max != nil {
		return -1
	}
	al, ok := sl.X.(*ssa.Alloc)
	if !ok {
		return -1
	}
	at, ok := al.Type().Underlying().(*types.Pointer).Elem().Underlying().(*types.Array)
	if !ok {
		return -1
	}
	return int(at.Len())
}

func (f *Frame) copyCall(c *ssa.CallCommon, args []Val, in ssa.Instruction) Val {
	g := f.g
	d, s := args[0], args[1]
	st := d.GT.Underlying().(*types.Slice)
	et := st.Elem()
	var slen string
	sIsStr := isString(s.GT)
	if sIsStr {
		slen = app("gstr.len", s.S)
	} else {
		slen = app("s_len", s.S)
	}
	n := g.freshConst("copyn", g.idxSort())
	g.assumeDef(n, eq(n, ite(g.icmp("<", app("s_len", d.S), slen, true), app("s_len", d.S), slen)))
	if !isLeafElem(et) {
		g.note("copy on a slice of structs/arrays: havoc")
		ms := &ModSet{Maps: map[string]bool{}}
		g.P.typeKeys(et, true, ms)
		f.cur = f.cur.havoc(ms, "copy")
		return Val{S: n, Sort: g.idxSort(), GT: tInt}
	}
	key := "E|" + typeKey(et)
	es := g.sortOf(et)
	g.ensureKey(key, es)
	e := f.cur.get(key)
	ix := g.idxSort()
	arr := g.freshConst("copyarr", fmt.Sprintf("(Array %s %s)", ix, es))
	oldd := app("select", e, app("s_arr", d.S))
	srcAt := func(j string) string {
		if sIsStr {
			return app("gstr.at", s.S, j)
		}
		return app("select", app("select", e, app("s_arr", s.S)), g.iadd(app("s_off", s.S), j))
	}
	doff := app("s_off", d.S)
	inRange := and(g.icmp("<=", doff, "i", true), g.icmp("<", "i", g.iadd(doff, n), true))
	g.assumeDef(arr, fmt.Sprintf("(forall ((i %s)) (! (= (select %s i) (ite %s %s (select %s i))) :pattern ((select %s i))))", ix,
		arr, inRange, srcAt(g.isub("i", doff)), oldd, arr))
	f.cur.set(key, app("store", e, app("s_arr", d.S), arr))
	return Val{S: n, Sort: g.idxSort(), GT: tInt}
}

// applyPure models a call to a function whose contract is marked `opt pure`: the result is an
// uninterpreted function of the arguments and the ensures clauses are instantiated at this call.
func (g *Gen) applyPure(fn *ssa.Function, fc *FuncContract, args []Val, reach string) Val {
	name := fullName(fn)
	nres := fn.Signature.Results().Len()
	if nres == 0 {
		panic(specError{"pure contract on a function without results: " + name})
	}
	uf := "uf!" + sanitize(name)
	var sorts, as []string
	for _, a := range args {
		sorts = append(sorts, a.Sort)
		as = append(as, a.S)
	}
	var results []Val
	for k := 0; k < nres; k++ {
		rt := fn.Signature.Results().At(k).Type()
		un := uf
		if nres > 1 {
			un = fmt.Sprintf("%s!%d", uf, k)
		}
		g.declFun(un, sorts, g.sortOf(rt))
		results = append(results, Val{S: app(un, as...), Sort: g.sortOf(rt), GT: rt})
	}
	var r Val
	if nres == 1 {
		r = results[0]
	} else {
		r = Val{Sort: "Tuple", GT: fn.Signature.Results(), Tuple: results}
	}
	key := results[0].S
	if g.pureSeen[key] {
		return r
	}
	g.pureSeen[key] = true
	bind := map[string]Val{}
	for i, p := range fn.Params {
		if i < len(args) {
			bind[p.Name()] = args[i]
		}
	}
	var pkg *types.Package
	if fn.Pkg != nil {
		pkg = fn.Pkg.Pkg
	}
	env := &Env{g: g, bind: bind, results: results, pkg: pkg, symHeap: &symHeap{names: map[string]string{}}}
	defs := uf
	if nres > 1 {
		defs = ""
		for k := 0; k < nres; k++ {
			defs += fmt.Sprintf(" %s!%d", uf, k)
		}
	}
	for _, c := range fc.Clauses {
		if c.Kind == "ensures" {
			g.assumeDef(defs, env.trBool(c.E))
		}
	}
	if len(env.symHeap.keys) > 0 {
		panic(specError{"pure contract reads the heap: " + name})
	}
	for _, rv := range results {
		g.assumeDef(defs, g.typeInv(rv, ""))
	}
	if fc.Trusted {
		g.Assumptions["trusted contract (assumed, body not verified): "+name+": "+clauseTexts(fc)] = true
	}
	return r
}

// heapStable reports whether the heap visible to callees is the same at every point of the function (or
// lemma) being verified: it declares `modifies nothing` (checked by its #frame obligation). Only then may
// a heap-reading deterministic function be modelled as an uninterpreted function of its arguments alone.
func (g *Gen) heapStable() bool {
	if g.FC == nil {
		return true
	}
	if g.FC.Opts["assume-heappure-stable"] != "" {
		// explicit, listed assumption: this function does not modify any cell that the heap-reading pure functions
		// it mentions read (e.g. it rearranges statement lists while they only read expression nodes)
		g.Assumptions["assume-heappure-stable: "+g.FC.Name+" is assumed not to modify cells read by the heap-reading pure functions it uses in its contract ("+g.FC.Opts["assume-heappure-stable"]+")"] = true
		return true
	}
	if !g.FC.HasMods {
		return false
	}
	ms := g.P.DeclaredMods(g.FC)
	return !ms.All && !ms.Std && len(ms.Maps) == 0
}

func heapPureUF(fn *ssa.Function) string { return "hp!" + sanitize(fullName(fn)) }

// heapPureResults builds the uninterpreted application(s) standing for the result(s) of a heappure function.
func (g *Gen) heapPureResults(fn *ssa.Function, args []Val) ([]Val, Val) {
	uf := heapPureUF(fn)
	var sorts, as []string
	for _, a := range args {
		sorts = append(sorts, a.Sort)
		as = append(as, a.S)
	}
	nres := fn.Signature.Results().Len()
	if nres == 0 {
		panic(specError{"heappure contract on a function without results: " + fullName(fn)})
	}
	var results []Val
	for k := 0; k < nres; k++ {
		rt := fn.Signature.Results().At(k).Type()
		un := uf
		if nres > 1 {
			un = fmt.Sprintf("%s!%d", uf, k)
		}
		g.declFun(un, sorts, g.sortOf(rt))
		results = append(results, Val{S: app(un, as...), Sort: g.sortOf(rt), GT: rt})
	}
	if nres == 1 {
		return results, results[0]
	}
	return results, Val{Sort: "Tuple", GT: fn.Signature.Results(), Tuple: results}
}

// applyHeapPure: a call of a function declared `opt heappure` (deterministic, modifies nothing, reads the
// heap). Inside a heap-stable function the result is hp!F(args) and the callee's ensures are assumed once
// for these arguments in the current heap (this is the induction hypothesis when F calls itself; the
// ensures may mention hp!F on sub-terms, which stay uninterpreted). Elsewhere the result is havocked.
func (f *Frame) applyHeapPure(fn *ssa.Function, fc *FuncContract, args []Val, in ssa.Instruction, rt types.Type) Val {
	g := f.g
	name := fullName(fn)
	if !g.heapStable() {
		g.note("heap-dependent pure function " + name + " called from a function that may modify the heap: result havocked")
		return f.havocCall(&ModSet{Maps: map[string]bool{}}, rt, fn.Name())
	}
	results, r := g.heapPureResults(fn, args)
	g.calleeContracts[name] = true
	if g.pureSeen[results[0].S] {
		return r
	}
	g.pureSeen[results[0].S] = true
	bind := map[string]Val{}
	for i, p := range fn.Params {
		if i < len(args) {
			bind[p.Name()] = args[i]
		}
	}
	pre := f.cur
	env := &Env{g: g, f: nil, heap: pre, old: pre, bind: bind, results: results, pkg: fn.Pkg.Pkg, reach: f.curReach}
	k := 0
	for _, c := range fc.Clauses {
		switch c.Kind {
		case "requires":
			goal := env.trBool(c.E)
			if f.top {
				g.callSeq++
				g.addOblig(&Oblig{Name: f.obName(fmt.Sprintf("call%d.%s.requires", g.callSeq, fn.Name()), c, k), Kind: "call-requires",
					Goal: implies(f.curReach, goal), Pos: f.posOf(in), Text: c.Text})
			}
			g.assume(implies(f.curReach, goal))
			k++
		}
	}
	var defs []string
	for _, rv := range results {
		defs = append(defs, rv.S)
	}
	for _, c := range fc.Clauses {
		if c.Kind == "ensures" {
			g.assume(implies(f.curReach, env.trBool(c.E)))
		}
	}
	for _, rv := range results {
		f.assumeTypeInv(rv)
	}
	if fc.Trusted {
		g.Assumptions["trusted contract (assumed, body not verified): "+name+": "+clauseTexts(fc)] = true
	}
	g.Assumptions["heappure: "+name+" is modelled as a deterministic function of its arguments in an unchanged heap (termination on acyclic ASTs assumed)"] = true
	return r
}

func clauseTexts(fc *FuncContract) string {
	var t []string
	for _, c := range fc.Clauses {
		t = append(t, c.Kind+" "+c.Text)
	}
	return strings.Join(t, "; ")
}

func (f *Frame) posOf(in ssa.Instruction) string {
	if in == nil {
		return ""
	}
	return f.pos(in.Pos())
}

// tinyLeaf: a library function small enough to inline (no calls, a handful of instructions).
func tinyLeaf(fn *ssa.Function) bool {
	n := 0
	for _, b := range fn.Blocks {
		for _, in := range b.Instrs {
			n++
			if _, ok := in.(ssa.CallInstruction); ok {
				return false
			}
		}
	}
	return n <= 20
}
