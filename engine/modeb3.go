package main

// Coverage of a digest (F3 applied to hashing): every listed field must flow, through the data cone of
// the function, into an argument of one of the listed sink calls (so two inputs that differ in that field
// feed different bytes to the hash).
//
//   //@ hashed NAME PROPS...: func=F ; in=pkg ; sink=hashWriteLengthPrefixed:1,hashWriteUint32:1,Write:0 ; must=T.f>sink,T.g>sink,...
//
// `T.f>sink` requires the field to reach that particular sink (e.g. the length-prefixed writer).

import (
	"fmt"
	"go/token"
	"go/types"
	"sort"
	"strings"

	"golang.org/x/tools/go/ssa"
)

// addrRoots collects where the memory an address points into comes from: "param:<name>", "alloc", "call:<name>",
// "global:<name>". Only address derivation is followed (element/field/slice of, the first operand of append, loads of
// local variables), not the values stored there.
func addrRoots(v ssa.Value, seen map[ssa.Value]bool, out map[string]bool, depth int) {
	if v == nil || seen[v] || depth > 40 {
		return
	}
	seen[v] = true
	rec := func(x ssa.Value) { addrRoots(x, seen, out, depth+1) }
	switch x := v.(type) {
	case *ssa.Parameter:
		out["param:"+x.Name()] = true
	case *ssa.FreeVar:
		out["param:"+x.Name()] = true
	case *ssa.Global:
		out["global:"+x.Name()] = true
	case *ssa.IndexAddr:
		rec(x.X)
	case *ssa.FieldAddr:
		rec(x.X)
	case *ssa.Slice:
		rec(x.X)
	case *ssa.ChangeType:
		rec(x.X)
	case *ssa.Convert:
		rec(x.X)
	case *ssa.Phi:
		for _, e := range x.Edges {
			rec(e)
		}
	case *ssa.Extract:
		rec(x.Tuple)
	case *ssa.MakeSlice, *ssa.MakeMap:
		out["alloc"] = true
	case *ssa.UnOp:
		if x.Op == token.MUL {
			// a pointer/slice loaded from a local variable: whatever was stored into it; from anywhere else: that place
			if al, ok := x.X.(*ssa.Alloc); ok {
				for _, r := range *al.Referrers() {
					if st, ok := r.(*ssa.Store); ok && st.Addr == ssa.Value(al) {
						rec(st.Val)
					}
				}
			} else if fa, ok := x.X.(*ssa.FieldAddr); ok {
				if al, ok := fa.X.(*ssa.Alloc); ok {
					// a field of a local struct: the stores to that field that come before this load on every path; if
					// there is none, the field still holds what a whole-struct copy (`clone := *orig`) put there
					found := false
					for _, r := range *al.Referrers() {
						fa2, ok := r.(*ssa.FieldAddr)
						if !ok || fa2.Field != fa.Field {
							continue
						}
						for _, r2 := range *fa2.Referrers() {
							st, ok := r2.(*ssa.Store)
							if !ok || st.Addr != ssa.Value(fa2) {
								continue
							}
							if (st.Block() == x.Block() && instrBefore(st, x)) || (st.Block() != x.Block() && st.Block().Dominates(x.Block())) {
								found = true
								rec(st.Val)
							}
						}
					}
					if !found {
						for _, r := range *al.Referrers() {
							if st, ok := r.(*ssa.Store); ok && st.Addr == ssa.Value(al) {
								// the struct value stored: usually a load `*orig`
								if ld, ok := st.Val.(*ssa.UnOp); ok && ld.Op == token.MUL {
									rec(ld.X)
								} else {
									rec(st.Val)
								}
							}
						}
						if len(*al.Referrers()) == 0 {
							out["alloc"] = true
						}
					}
				} else {
					rec(x.X)
				}
			} else {
				rec(x.X)
			}
		}
	case *ssa.TypeAssert:
		rec(x.X)
	case *ssa.MakeInterface:
		rec(x.X)
	case *ssa.Field:
		rec(x.X)
	case *ssa.Index:
		rec(x.X)
	case *ssa.Lookup:
		rec(x.X)
	case *ssa.Alloc:
		out["alloc"] = true
	case *ssa.Call:
		if b, ok := x.Call.Value.(*ssa.Builtin); ok && b.Name() == "append" && len(x.Call.Args) > 0 {
			// the result aliases the first operand only if it had spare capacity; a freshly made first operand
			// ([]T{} / nil) never aliases the second
			rec(x.Call.Args[0])
			return
		}
		if callee := x.Call.StaticCallee(); callee != nil {
			out["call:"+callee.Name()] = true
		} else {
			out["call:?"] = true
		}
	case *ssa.Const:
		out["alloc"] = true
	}
}

// readsFieldAround reports whether a read of the field "T.f" dominates the instruction or is reachable from it.
func readsFieldAround(in ssa.Instruction, tf string) bool {
	isRead := func(x ssa.Instruction) bool {
		switch v := x.(type) {
		case *ssa.FieldAddr:
			pt, ok := v.X.Type().Underlying().(*types.Pointer)
			if !ok {
				return false
			}
			if n, ok := pt.Elem().(*types.Named); ok {
				if st, ok := n.Underlying().(*types.Struct); ok && n.Obj().Name()+"."+st.Field(v.Field).Name() == tf {
					// a read, not the address of a store target
					for _, r := range *v.Referrers() {
						if u, ok := r.(*ssa.UnOp); ok && u.Op == token.MUL {
							return true
						}
					}
				}
			}
		case *ssa.Field:
			if n, ok := v.X.Type().(*types.Named); ok {
				if st, ok := n.Underlying().(*types.Struct); ok && n.Obj().Name()+"."+st.Field(v.Field).Name() == tf {
					return true
				}
			}
		}
		return false
	}
	b := in.Block()
	// dominating: earlier in this block or in a dominator
	for _, x := range b.Instrs {
		if x == in {
			break
		}
		if isRead(x) {
			return true
		}
	}
	for d := b.Idom(); d != nil; d = d.Idom() {
		for _, x := range d.Instrs {
			if isRead(x) {
				return true
			}
		}
	}
	// reachable: later in this block or in any block reachable from it
	after := false
	for _, x := range b.Instrs {
		if after && isRead(x) {
			return true
		}
		if x == in {
			after = true
		}
	}
	seen := map[*ssa.BasicBlock]bool{}
	var walk func(b *ssa.BasicBlock) bool
	walk = func(b *ssa.BasicBlock) bool {
		for _, s := range b.Succs {
			if seen[s] || s.Dominates(in.Block()) {
				// not around a loop: the next iteration is about another item
				continue
			}
			seen[s] = true
			for _, x := range s.Instrs {
				if isRead(x) {
					return true
				}
			}
			if walk(s) {
				return true
			}
		}
		return false
	}
	return walk(b)
}

// storeBefore reports whether a store to field "T.f" whose value matches the pattern occurs before the instruction in
// its block, or in a block from which the instruction's block is reachable.
func storeBefore(p *Program, in ssa.Instruction, tf string, pat string) bool {
	target := in.Block()
	matches := func(x ssa.Instruction) bool {
		st, ok := x.(*ssa.Store)
		if !ok {
			return false
		}
		if _, ok := siteMatches(p, "store "+tf, st); !ok {
			return false
		}
		for _, alt := range strings.Split(pat, " OR ") {
			if pathMatches(valuePath(st.Val), strings.TrimSpace(alt)) {
				return true
			}
		}
		return false
	}
	for _, x := range target.Instrs {
		if x == in {
			break
		}
		if matches(x) {
			return true
		}
	}
	reaches := func(from *ssa.BasicBlock) bool {
		seen := map[*ssa.BasicBlock]bool{}
		var walk func(b *ssa.BasicBlock) bool
		walk = func(b *ssa.BasicBlock) bool {
			for _, s := range b.Succs {
				if s.Dominates(b) && s != target {
					// a back edge: the next iteration of a loop is about another item
					continue
				}
				if s == target {
					return true
				}
				if !seen[s] {
					seen[s] = true
					if walk(s) {
						return true
					}
				}
			}
			return false
		}
		return walk(from)
	}
	for _, b := range target.Parent().Blocks {
		if b == target {
			continue
		}
		for _, x := range b.Instrs {
			if matches(x) && reaches(b) {
				return true
			}
		}
	}
	return false
}

// mayAliasParam: v is the named parameter (or free variable), a sub-slice of it, a phi that may be one of those, or
// the result of append(x, ...) where x may alias it (append returns the same backing array when there is room).
func mayAliasParam(v ssa.Value, name string, seen map[ssa.Value]bool) bool {
	if seen[v] {
		return false
	}
	seen[v] = true
	switch x := v.(type) {
	case *ssa.Parameter:
		return x.Name() == name
	case *ssa.FreeVar:
		return x.Name() == name
	case *ssa.Phi:
		for _, e := range x.Edges {
			if mayAliasParam(e, name, seen) {
				return true
			}
		}
	case *ssa.Slice:
		return mayAliasParam(x.X, name, seen)
	case *ssa.ChangeType:
		return mayAliasParam(x.X, name, seen)
	case *ssa.UnOp:
		// a local variable that lives in memory (captured or address-taken): look at what is stored into it
		if al, ok := x.X.(*ssa.Alloc); ok && x.Op == token.MUL {
			for _, r := range *al.Referrers() {
				if st, ok := r.(*ssa.Store); ok && st.Addr == al && mayAliasParam(st.Val, name, seen) {
					return true
				}
			}
		}
	case *ssa.Call:
		if b, ok := x.Call.Value.(*ssa.Builtin); ok && b.Name() == "append" && len(x.Call.Args) > 0 {
			return mayAliasParam(x.Call.Args[0], name, seen)
		}
	}
	return false
}

// notRegisteredAfter: after the instruction (same block, later) or in a block its block dominates there must be an
// `x = append(x, ...)` whose destination, or a map update whose map, has an access path matching pat.
func notRegisteredAfter(in ssa.Instruction, pat string) string {
	b := in.Block()
	matches := func(x ssa.Instruction) bool {
		switch v := x.(type) {
		case *ssa.Call:
			if bi, ok := v.Call.Value.(*ssa.Builtin); ok && bi.Name() == "append" && len(v.Call.Args) > 0 {
				return pathMatches(valuePath(v.Call.Args[0]), pat)
			}
		case *ssa.MapUpdate:
			return pathMatches(valuePath(v.Map), pat)
		}
		return false
	}
	after := false
	for _, x := range b.Instrs {
		if x == in {
			after = true
			continue
		}
		if after && matches(x) {
			return ""
		}
	}
	for _, d := range b.Parent().Blocks {
		if d != b && b.Dominates(d) {
			for _, x := range d.Instrs {
				if matches(x) {
					return ""
				}
			}
		}
	}
	return "nothing made here is entered into " + pat + " afterwards (no append to / map update of it follows the site)"
}

// staleOnBackEdge: the loop-carried variable `name` (a phi at the header of the innermost loop around the instruction)
// keeps its top-of-iteration value on a back edge that the instruction can reach. Returns "" if every such edge carries
// a new value.
func staleOnBackEdge(in ssa.Instruction, name string) string {
	b := in.Block()
	// the innermost loop header that dominates the site and has a phi of that name
	var phi *ssa.Phi
	for h := b; h != nil && phi == nil; h = h.Idom() {
		// a loop header has a predecessor that it dominates (the back edge); a join block inside the loop body may have
		// a phi of the same name, which is not the loop-carried one
		isHeader := false
		for _, pr := range h.Preds {
			if h.Dominates(pr) {
				isHeader = true
			}
		}
		if !isHeader {
			continue
		}
		for _, x := range h.Instrs {
			if p, ok := x.(*ssa.Phi); ok && p.Comment == name {
				phi = p
				break
			}
		}
	}
	if phi == nil {
		return "no loop-carried variable named " + name + " around this site"
	}
	header := phi.Block()
	// blocks reachable from the site without passing through the header
	seen := map[*ssa.BasicBlock]bool{b: true}
	var walk func(x *ssa.BasicBlock)
	walk = func(x *ssa.BasicBlock) {
		for _, s := range x.Succs {
			if s == header || seen[s] {
				continue
			}
			seen[s] = true
			walk(s)
		}
	}
	walk(b)
	for i, pred := range header.Preds {
		if !seen[pred] {
			continue
		}
		// the value carried round the loop, looked at through the join phis between the site and the back edge: only
		// their edges that can come from the site count
		var stale func(v ssa.Value, depth int) bool
		stale = func(v ssa.Value, depth int) bool {
			if v == ssa.Value(phi) {
				return true
			}
			q, ok := v.(*ssa.Phi)
			if !ok || q.Block() == header || q.Block() == b || !seen[q.Block()] || depth > 8 {
				// (a phi at the top of the site's own block joins what happened BEFORE the site)
				return false
			}
			for k, pr := range q.Block().Preds {
				if seen[pr] && k < len(q.Edges) && stale(q.Edges[k], depth+1) {
					return true
				}
			}
			return false
		}
		if stale(phi.Edges[i], 0) {
			return "after this site the loop continues (edge from block " + fmt.Sprint(pred.Index) + ") with `" + name + "` still holding the value it had before the site"
		}
	}
	return ""
}

// notFreshPerIteration: the value is not an allocation made inside the innermost loop that contains the instruction.
func notFreshPerIteration(in ssa.Instruction, v ssa.Value) string {
	var allocBlock *ssa.BasicBlock
	switch x := v.(type) {
	case *ssa.MakeMap:
		allocBlock = x.Block()
	case *ssa.MakeSlice:
		allocBlock = x.Block()
	case *ssa.Alloc:
		allocBlock = x.Block()
	default:
		return "is not allocated in this function at all"
	}
	b := in.Block()
	// innermost loop header around the site: the nearest dominator that has a predecessor it dominates (a back edge)
	for h := b; h != nil; h = h.Idom() {
		isHeader := false
		for _, p := range h.Preds {
			if h.Dominates(p) {
				isHeader = true
			}
		}
		if isHeader {
			if h.Dominates(allocBlock) && h != allocBlock {
				return ""
			}
			return "is allocated once, before the loop, and so is shared by all iterations"
		}
	}
	return ""
}

// localOf returns the local variable (Alloc) that an address is a field/element of, or nil.
func localOf(v ssa.Value) *ssa.Alloc {
	for depth := 0; depth < 8; depth++ {
		switch x := v.(type) {
		case *ssa.Alloc:
			return x
		case *ssa.FieldAddr:
			v = x.X
		case *ssa.IndexAddr:
			v = x.X
		default:
			return nil
		}
	}
	return nil
}

// readAfter reports whether some path from the store reaches a read of the local (a load of the whole variable, of one
// of its fields, or its address escaping into a call or another store) before the whole variable is overwritten.
func readAfter(st *ssa.Store, al *ssa.Alloc) bool {
	isRead := func(in ssa.Instruction) bool {
		switch x := in.(type) {
		case *ssa.UnOp:
			if x.Op == token.MUL && localOf(x.X) == al {
				return true
			}
		case *ssa.Call:
			for _, a := range x.Call.Args {
				if localOf(a) == al {
					return true
				}
			}
		case *ssa.Store:
			if localOf(x.Val) == al {
				return true
			}
		case *ssa.MakeInterface:
			if localOf(x.X) == al {
				return true
			}
		case *ssa.MakeClosure:
			for _, b := range x.Bindings {
				if localOf(b) == al {
					return true
				}
			}
		case *ssa.Return:
			for _, r := range x.Results {
				if localOf(r) == al {
					return true
				}
			}
		}
		return false
	}
	kills := func(in ssa.Instruction) bool {
		s2, ok := in.(*ssa.Store)
		return ok && s2.Addr == ssa.Value(al)
	}
	b := st.Block()
	start := 0
	for i, in := range b.Instrs {
		if in == ssa.Instruction(st) {
			start = i + 1
		}
	}
	seen := map[*ssa.BasicBlock]bool{}
	var walk func(b *ssa.BasicBlock, from int) bool
	walk = func(b *ssa.BasicBlock, from int) bool {
		for _, in := range b.Instrs[from:] {
			if isRead(in) {
				return true
			}
			if kills(in) {
				return false
			}
		}
		for _, s := range b.Succs {
			if !seen[s] {
				seen[s] = true
				if walk(s, 0) {
					return true
				}
			}
		}
		return false
	}
	return walk(b, start)
}

// coneThroughCallees: only the decision-coverage rule counts what a small helper looks at as looked at by the caller;
// the digest/key coverage rules (hashed, keyed) must not, a field read inside a helper does not reach the sink.
var coneThroughCallees = false

// fieldsInCone collects "Type.field" names read in the backward data cone of v.
func fieldsInCone(v ssa.Value, seen map[ssa.Value]bool, out map[string]bool, depth int) {
	if v == nil || seen[v] || depth > 40 {
		return
	}
	seen[v] = true
	rec := func(x ssa.Value) { fieldsInCone(x, seen, out, depth+1) }
	switch x := v.(type) {
	case *ssa.Parameter:
		out["param:"+x.Name()] = true
	case *ssa.UnOp:
		rec(x.X)
	case *ssa.FieldAddr:
		pt := x.X.Type().Underlying().(*types.Pointer)
		if n, ok := pt.Elem().(*types.Named); ok {
			out[n.Obj().Name()+"."+pt.Elem().Underlying().(*types.Struct).Field(x.Field).Name()] = true
		}
		rec(x.X)
	case *ssa.Field:
		if n, ok := x.X.Type().(*types.Named); ok {
			out[n.Obj().Name()+"."+x.X.Type().Underlying().(*types.Struct).Field(x.Field).Name()] = true
		}
		rec(x.X)
	case *ssa.IndexAddr:
		rec(x.X)
		rec(x.Index)
	case *ssa.Index:
		rec(x.X)
		rec(x.Index)
	case *ssa.Lookup:
		rec(x.X)
		rec(x.Index)
	case *ssa.Convert:
		rec(x.X)
	case *ssa.ChangeType:
		rec(x.X)
	case *ssa.MakeInterface:
		rec(x.X)
	case *ssa.Slice:
		rec(x.X)
	case *ssa.Phi:
		for _, e := range x.Edges {
			rec(e)
		}
		// control dependence: which edge is taken is decided by the branch conditions between the phi's immediate
		// dominator and its predecessors (e.g. `ok := true; for … { if !cond(x) { ok = false } }`)
		if b := x.Block(); b != nil && b.Idom() != nil {
			stop := b.Idom()
			for _, p := range b.Preds {
				for cur := p; cur != nil && cur != stop; cur = cur.Idom() {
					if n := len(cur.Instrs); n > 0 {
						if iff, ok := cur.Instrs[n-1].(*ssa.If); ok {
							rec(iff.Cond)
						}
					}
				}
				if n := len(stop.Instrs); n > 0 {
					if iff, ok := stop.Instrs[n-1].(*ssa.If); ok {
						rec(iff.Cond)
					}
				}
			}
		}
	case *ssa.Extract:
		rec(x.Tuple)
	case *ssa.TypeAssert:
		// a type test reads "which dynamic type": recorded as type:<Name>
		t := x.AssertedType
		if pt, ok := t.(*types.Pointer); ok {
			t = pt.Elem()
		}
		if n, ok := t.(*types.Named); ok {
			out["type:"+n.Obj().Name()] = true
		}
		rec(x.X)
	case *ssa.BinOp:
		rec(x.X)
		rec(x.Y)
	case *ssa.Call:
		for _, a := range x.Call.Args {
			rec(a)
		}
		if !x.Call.IsInvoke() {
			rec(x.Call.Value)
		}
		// a small helper of the same module that computes the answer (e.g. `p.isInlinedEnumNumber(e.Left)`): what it
		// looks at (dynamic types tested, fields read) counts as looked at by the caller's decision; one level deep
		if callee := x.Call.StaticCallee(); coneThroughCallees && callee != nil && callee != x.Parent() && depth < 30 && callee.Pkg != nil && strings.HasPrefix(callee.Pkg.Pkg.Path(), modPath) && len(callee.Blocks) <= 40 {
			for _, b := range callee.Blocks {
				for _, in := range b.Instrs {
					switch y := in.(type) {
					case *ssa.TypeAssert:
						t := y.AssertedType
						if pt, ok := t.(*types.Pointer); ok {
							t = pt.Elem()
						}
						if n, ok := t.(*types.Named); ok {
							out["type:"+n.Obj().Name()] = true
						}
					case *ssa.FieldAddr:
						// only fields the helper READS (an address that is only stored through is not looked at)
						isLoaded := false
						for _, r := range *y.Referrers() {
							if u, ok := r.(*ssa.UnOp); ok && u.Op == token.MUL {
								isLoaded = true
							}
						}
						if !isLoaded {
							break
						}
						if pt, ok := y.X.Type().Underlying().(*types.Pointer); ok {
							if n, ok := pt.Elem().(*types.Named); ok {
								if st, ok := n.Underlying().(*types.Struct); ok {
									out[n.Obj().Name()+"."+st.Field(y.Field).Name()] = true
								}
							}
						}
					}
				}
			}
		}
	case *ssa.Alloc:
		// values stored into the local
		for _, r := range *x.Referrers() {
			if st, ok := r.(*ssa.Store); ok && st.Addr == ssa.Value(x) {
				rec(st.Val)
			}
			// elements / fields of the local written through an address derived from it (variadic argument
			// arrays, composite literals)
			if ia, ok := r.(*ssa.IndexAddr); ok {
				for _, r2 := range *ia.Referrers() {
					if st, ok := r2.(*ssa.Store); ok && st.Addr == ssa.Value(ia) {
						rec(st.Val)
					}
				}
			}
			if fa, ok := r.(*ssa.FieldAddr); ok {
				for _, r2 := range *fa.Referrers() {
					if st, ok := r2.(*ssa.Store); ok && st.Addr == ssa.Value(fa) {
						rec(st.Val)
					}
				}
			}
		}
	}
}

func runHashedRules(p *Program, id string) ([]*Gen, []string) {
	var gens []*Gen
	var errs []string
	for _, d := range p.CS.Dirs {
		if d.Kind != "hashed" {
			continue
		}
		j := strings.Index(d.Text, ":")
		if j < 0 {
			continue
		}
		head := strings.Fields(d.Text[:j])
		if len(head) == 0 || !hasProp(head[1:], id) {
			continue
		}
		name := head[0]
		kv := map[string]string{}
		for _, part := range strings.Split(d.Text[j+1:], ";") {
			part = strings.TrimSpace(part)
			if k := strings.Index(part, "="); k > 0 {
				kv[strings.TrimSpace(part[:k])] = strings.TrimSpace(part[k+1:])
			}
		}
		var sp *ssa.Package
		for path, x := range p.Pkgs {
			if x.Pkg.Name() == kv["in"] && strings.HasPrefix(path, modPath) {
				sp = x
			}
		}
		if sp == nil {
			errs = append(errs, "contract-stale: hashed "+name+": package not loaded")
			continue
		}
		fn := p.LookupFunc(sp.Pkg.Path(), kv["func"])
		if fn == nil {
			errs = append(errs, "contract-stale: hashed "+name+": function "+kv["func"]+" not found")
			continue
		}
		g := NewGen(p, nil, nil)
		g.Label = "hashed " + name
		sinks := map[string]int{}
		for _, s := range splitList(kv["sink"], ",") {
			parts := strings.SplitN(s, ":", 2)
			n := 0
			if len(parts) == 2 {
				fmt.Sscanf(parts[1], "%d", &n)
			}
			sinks[parts[0]] = n
		}
		// field -> set of sinks it reaches
		reach := map[string]map[string]bool{}
		nsink := 0
		var fns []*ssa.Function
		var collect func(f *ssa.Function)
		collect = func(f *ssa.Function) {
			fns = append(fns, f)
			for _, a := range f.AnonFuncs {
				collect(a)
			}
		}
		collect(fn)
		for _, f := range fns {
			for _, b := range f.Blocks {
				for _, in := range b.Instrs {
					c, ok := in.(*ssa.Call)
					if !ok {
						continue
					}
					cname := ""
					if callee := c.Call.StaticCallee(); callee != nil {
						cname = callee.Name()
					} else if c.Call.IsInvoke() {
						cname = c.Call.Method.Name()
					}
					argN, isSink := sinks[cname]
					if !isSink {
						continue
					}
					args := c.Call.Args
					if argN >= len(args) {
						continue
					}
					nsink++
					fields := map[string]bool{}
					fieldsInCone(args[argN], map[ssa.Value]bool{}, fields, 0)
					for fld := range fields {
						if reach[fld] == nil {
							reach[fld] = map[string]bool{}
						}
						reach[fld][cname] = true
					}
				}
			}
		}
		if nsink == 0 {
			errs = append(errs, "contract-stale: hashed "+name+": no sink call found in "+kv["func"])
		}
		for _, m := range splitList(kv["must"], ",") {
			fld, sink := m, ""
			if k := strings.Index(m, ">"); k > 0 {
				fld, sink = m[:k], m[k+1:]
			}
			o := &Oblig{Name: fmt.Sprintf("%s.%s#hashed:%s", kv["in"], kv["func"], fld), Kind: "hashed", Goal: "true", Pre: "unsat", AutoSite: true,
				Pos:  strings.TrimPrefix(p.Fset.Position(fn.Pos()).String(), p.Repo+"/"),
				Text: "hashed " + name + ": " + fld + " flows into the digest" + map[bool]string{true: " through " + sink, false: ""}[sink != ""]}
			ok := reach[fld] != nil
			if ok && sink != "" {
				ok = reach[fld][sink]
			}
			if !ok {
				o.Pre = "sat"
				var got []string
				for s := range reach[fld] {
					got = append(got, s)
				}
				sort.Strings(got)
				o.ReplayTemplate = kv["scenario"]
				o.ReplayPkgDir = strings.TrimPrefix(strings.TrimPrefix(d.Pkg, modPath), "/")
				o.Model = fld + " does not reach " + map[bool]string{true: sink, false: "any digest sink"}[sink != ""] + " in " + kv["func"] + " (reaches: " + strings.Join(got, ",") + ")"
			}
			g.Obligs = append(g.Obligs, o)
		}
		gens = append(gens, g)
	}
	return gens, errs
}

// Unguarded sites: a call that must happen for EVERY element of a traversal (e.g. the recursive visit of
// every imported chunk) may only be dominated by the loop condition and by the listed guards.
//
//	//@ unguarded NAME PROPS...: func=F ; in=pkg ; site=call G ; allow=true:PATH,false:PATH ; argpath=N:PATH
func runUnguardedRules(p *Program, id string) ([]*Gen, []string) {
	var gens []*Gen
	var errs []string
	for _, d := range p.CS.Dirs {
		if d.Kind != "unguarded" && d.Kind != "flow" {
			continue
		}
		j := strings.Index(d.Text, ":")
		if j < 0 {
			continue
		}
		head := strings.Fields(d.Text[:j])
		if len(head) == 0 || !hasProp(head[1:], id) {
			continue
		}
		name := head[0]
		kv := map[string]string{}
		for _, part := range strings.Split(d.Text[j+1:], ";") {
			part = strings.TrimSpace(part)
			if k := strings.Index(part, "="); k > 0 {
				kv[strings.TrimSpace(part[:k])] = strings.TrimSpace(part[k+1:])
			}
		}
		var sp *ssa.Package
		for path, x := range p.Pkgs {
			if x.Pkg.Name() == kv["in"] && strings.HasPrefix(path, modPath) {
				sp = x
			}
		}
		if sp == nil {
			errs = append(errs, "contract-stale: "+d.Kind+" "+name+": package not loaded")
			continue
		}
		var fns []*ssa.Function
		var collect func(f *ssa.Function)
		collect = func(f *ssa.Function) {
			fns = append(fns, f)
			for _, a := range f.AnonFuncs {
				collect(a)
			}
		}
		if kv["func"] == "*" {
			// every function and method of the package (sorted for stable obligation names)
			var all []*ssa.Function
			for f := range p.AllFuncs {
				if f.Pkg == sp && f.Parent() == nil && f.Blocks != nil && f.Synthetic == "" {
					all = append(all, f)
				}
			}
			sort.Slice(all, func(i, j int) bool { return fullName(all[i]) < fullName(all[j]) })
			for _, f := range all {
				_, short := ContractName(f)
				skip := false
				for _, ex := range splitList(kv["except-func"], ",") {
					if ex == short {
						skip = true
					}
				}
				if !skip {
					collect(f)
				}
			}
		} else {
			fn := p.LookupFunc(sp.Pkg.Path(), kv["func"])
			if fn == nil {
				errs = append(errs, "contract-stale: "+d.Kind+" "+name+": function "+kv["func"]+" not found")
				continue
			}
			collect(fn)
		}
		g := NewGen(p, nil, nil)
		g.Label = d.Kind + " " + name
		n := 0
		perFn := map[string]int{}
		for _, f := range fns {
			for _, b := range f.Blocks {
				for _, in := range b.Instrs {
					desc, ok := siteMatches(p, kv["site"], in)
					if !ok {
						continue
					}
					skipSite := false
					for _, key := range []string{"when-arg", "when-arg2"} {
						if wa := kv[key]; wa != "" {
							// only calls whose N-th argument has this shape (when-arg=N:PATTERN)
							parts := strings.SplitN(wa, ":", 2)
							var an int
							fmt.Sscanf(parts[0], "%d", &an)
							c, isCall := in.(*ssa.Call)
							if !isCall || len(parts) != 2 || an >= len(c.Call.Args) || !pathMatches(valuePath(c.Call.Args[an]), parts[1]) {
								skipSite = true
							}
						}
					}
					if skipSite {
						continue
					}
					if wr := kv["when-ret"]; wr != "" {
						// only returns whose N-th result has this shape (when-ret=N:PATTERN)
						parts := strings.SplitN(wr, ":", 2)
						var rn int
						fmt.Sscanf(parts[0], "%d", &rn)
						r, isRet := in.(*ssa.Return)
						if !isRet || len(parts) != 2 || rn >= len(r.Results) || !pathMatches(valuePath(r.Results[rn]), parts[1]) {
							continue
						}
					}
					if wm := kv["when-map"]; wm != "" {
						// only lookups / updates of a map with this access path
						mp := ""
						if lk, ok := in.(*ssa.Lookup); ok {
							mp = valuePath(lk.X)
						} else if mu, ok := in.(*ssa.MapUpdate); ok {
							mp = valuePath(mu.Map)
						}
						if mp == "" || !pathMatches(mp, wm) {
							continue
						}
					}
					if w := kv["when"]; w != "" {
						// only stores whose value has this shape
						st, isSt := in.(*ssa.Store)
						if !isSt || !pathMatches(valuePath(st.Val), w) {
							continue
						}
					}
					n++
					oname := fmt.Sprintf("%s.%s#%s:%s.%d", kv["in"], kv["func"], d.Kind, name, n)
					if kv["func"] == "*" {
						top := f
						for top.Parent() != nil {
							top = top.Parent()
						}
						_, short := ContractName(top)
						perFn[short]++
						oname = fmt.Sprintf("%s.%s#%s:%s.%d", kv["in"], short, d.Kind, name, perFn[short])
					}
					o := &Oblig{Name: oname, Kind: d.Kind, Goal: "true", Pre: "unsat", AutoSite: true,
						Pos: strings.TrimPrefix(p.Fset.Position(in.Pos()).String(), p.Repo+"/"), Text: d.Kind + " " + name + ": " + desc + " — " + strings.TrimSpace(d.Text[j+1:])}
					if d.Kind == "unguarded" {
						allow := splitList(kv["allow"], ",")
						for _, fct := range domFacts(in) {
							if fct.cond == nil {
								continue
							}
							// range / for loop conditions are comparisons of an index: always allowed
							if bo, isBin := fct.cond.(*ssa.BinOp); isBin {
								if _, isPhi := bo.X.(*ssa.Phi); isPhi {
									continue
								}
								if bx, isBin2 := bo.X.(*ssa.BinOp); isBin2 {
									if _, isPhi := bx.X.(*ssa.Phi); isPhi {
										continue
									}
								}
							}
							okAllowed := false
							for _, a := range allow {
								if factMatches(fct, a) {
									okAllowed = true
								}
							}
							if !okAllowed {
								pol := "true"
								if fct.neg {
									pol = "false"
								}
								o.Pre = "sat"
								o.Model = "the site is only reached when " + valuePath(fct.cond) + " is " + pol + ", which the rule does not allow"
							}
						}
					}
					// required provenance of a stored value
					if vp := kv["valuepath"]; vp != "" {
						if st, isStore := in.(*ssa.Store); isStore {
							got := valuePath(st.Val)
							okAny := false
							for _, alt := range splitList(vp, "|") {
								if pathMatches(got, alt) {
									okAny = true
								}
							}
							if !okAny {
								o.Pre = "sat"
								o.Model = "the stored value is " + got + ", expected one of " + vp
							}
						}
					}
					// forbidden provenance of a stored value (valuenot=pat | pat)
					if vp := kv["valuenot"]; vp != "" {
						if st, isStore := in.(*ssa.Store); isStore {
							got := valuePath(st.Val)
							for _, alt := range splitList(vp, "|") {
								if pathMatches(got, alt) {
									o.Pre = "sat"
									o.Model = "the stored value is " + got + ", which must not be " + alt
								}
							}
						}
					}
					// forbidden origin of a stored value (value-not-from=<parameter>): the parameter must not be in the
					// backward data cone of the stored value
					if vf := kv["value-not-from"]; vf != "" {
						if st, isStore := in.(*ssa.Store); isStore {
							cone := map[string]bool{}
							fieldsInCone(st.Val, map[ssa.Value]bool{}, cone, 0)
							if cone["param:"+vf] {
								o.Pre = "sat"
								o.Model = "the stored value " + valuePath(st.Val) + " is computed from parameter " + vf
							}
						}
					}
					// the destination of an append must not share its backing array with a parameter (arg-not-alias=N:PARAM): the
					// N-th argument is not the parameter itself, a sub-slice of it, or the result of appending to one of those
					if ana := kv["arg-not-alias"]; ana != "" {
						parts := strings.SplitN(ana, ":", 2)
						var an int
						fmt.Sscanf(parts[0], "%d", &an)
						if c, isCall := in.(*ssa.Call); isCall && len(parts) == 2 && an < len(c.Call.Args) {
							if mayAliasParam(c.Call.Args[an], parts[1], map[ssa.Value]bool{}) {
								o.Pre = "sat"
								o.Model = "argument " + fmt.Sprint(an) + " (" + valuePath(c.Call.Args[an]) + ") can share its backing array with parameter " + parts[1] + " (no copy in between)"
							}
						}
					}
					// a saved copy must be taken BEFORE the variable is overwritten (value-read-before-overwrite=1): the stored
					// value is a read of a field of a local struct variable, and no whole-variable store to that variable
					// precedes the read in the read's block (save-then-overwrite-then-restore keeps its order)
					if kv["value-read-before-overwrite"] != "" {
						if st, isStore := in.(*ssa.Store); isStore {
							why := "the stored value " + valuePath(st.Val) + " is not a read of a field of a local struct variable"
							if u, ok := st.Val.(*ssa.UnOp); ok && u.Op == token.MUL {
								if fa, ok := u.X.(*ssa.FieldAddr); ok {
									if al, ok := fa.X.(*ssa.Alloc); ok {
										why = ""
										for _, x := range u.Block().Instrs {
											if x == ssa.Instruction(u) {
												break
											}
											if ws, ok := x.(*ssa.Store); ok && ws.Addr == ssa.Value(al) {
												why = "the saved value " + valuePath(st.Val) + " is read after " + al.Comment + " was overwritten as a whole (it is the new value, not the one to restore)"
											}
										}
									}
								}
							}
							if why != "" {
								o.Pre = "sat"
								o.Model = why
							}
						}
					}
					// the written location must be memory allocated in this function (target-fresh=1): no root other than a
					// local allocation
					if kv["target-fresh"] != "" {
						if st, isStore := in.(*ssa.Store); isStore {
							roots := map[string]bool{}
							addrRoots(st.Addr, map[ssa.Value]bool{}, roots, 0)
							var bad []string
							for r := range roots {
								if r != "alloc" {
									bad = append(bad, r)
								}
							}
							sort.Strings(bad)
							if len(bad) > 0 {
								o.Pre = "sat"
								o.Model = "the store writes " + valuePath(st.Addr) + ", memory that is not allocated here (reached from " + strings.Join(bad, ", ") + ")"
							}
						}
					}
					// a write to a local copy must be read afterwards (target-read-after=1): otherwise the write is lost (a pin
					// set on a loop variable after the variable was copied out)
					if kv["target-read-after"] != "" {
						if st, isStore := in.(*ssa.Store); isStore {
							if al := localOf(st.Addr); al != nil && !readAfter(st, al) {
								o.Pre = "sat"
								o.Model = "the store writes " + valuePath(st.Addr) + " of the local copy `" + al.Comment + "`, and no path from here reads that copy again before it is overwritten: the write is lost"
							}
						}
					}
					// something must have been written before the site is reached (preceded-by-store=T.f:VALUEPATTERN): a store
					// to field f of a T whose value matches, in this block before the site or in a block the site is reachable from
					if ps := kv["preceded-by-store"]; ps != "" {
						parts := strings.SplitN(ps, ":", 2)
						if len(parts) == 2 && !storeBefore(p, in, parts[0], parts[1]) {
							o.Pre = "sat"
							o.Model = "no store to " + parts[0] + " of a value like " + parts[1] + " can reach this site"
						}
					}
					// a loop-carried variable must be re-established after the site (then-updates=NAME): on every back edge of
					// the enclosing loop that is reachable from the site, the variable's value is not simply the one it had at
					// the top of the iteration
					// what the site makes must be entered into a registry before the function goes on (then-registers=PAT OR PAT):
					// in the site's block after it, or in a block the site's block dominates, there is an append to / a map
					// update of a structure whose access path matches
					if tr := kv["then-registers"]; tr != "" {
						if why := notRegisteredAfter(in, tr); why != "" {
							o.Pre = "sat"
							o.Model = why
						}
					}
					// the site must be able to go on to a call of NAME (reaches-call=NAME): e.g. a per-digit accumulation that is
					// only exact up to a bound is followed by the exact conversion
					if rc := kv["reaches-call"]; rc != "" {
						found := false
						seenB := map[*ssa.BasicBlock]bool{}
						var walkB func(b *ssa.BasicBlock, from ssa.Instruction)
						walkB = func(b *ssa.BasicBlock, from ssa.Instruction) {
							on := from == nil
							for _, x := range b.Instrs {
								if on {
									if _, ok := siteMatches(p, "call "+rc, x); ok {
										found = true
									}
								}
								if x == from {
									on = true
								}
							}
							for _, sx := range b.Succs {
								if !seenB[sx] {
									seenB[sx] = true
									walkB(sx, nil)
								}
							}
						}
						walkB(in.Block(), in)
						if !found {
							o.Pre = "sat"
							o.Model = "no call of " + rc + " can follow this site"
						}
					}
					if tu := kv["then-updates"]; tu != "" {
						if why := staleOnBackEdge(in, tu); why != "" {
							o.Pre = "sat"
							o.Model = why
						}
					}
					// a scratch structure handed to the call must be made anew for every item (arg-fresh-per-iteration=N): the
					// N-th argument is a map/slice/struct made inside the innermost loop around the call, not before it
					if af := kv["arg-fresh-per-iteration"]; af != "" {
						var an int
						fmt.Sscanf(af, "%d", &an)
						if c, isCall := in.(*ssa.Call); isCall && an < len(c.Call.Args) {
							if why := notFreshPerIteration(in, c.Call.Args[an]); why != "" {
								o.Pre = "sat"
								o.Model = "argument " + fmt.Sprint(an) + " (" + valuePath(c.Call.Args[an]) + ") " + why
							}
						}
					}
					// required shape of the key / value of a map update (mapkey=PAT OR PAT, mapvalue=PAT OR PAT)
					if mu, isMU := in.(*ssa.MapUpdate); isMU {
						for _, kvn := range [][2]string{{"mapkey", valuePath(mu.Key)}, {"mapvalue", valuePath(mu.Value)}} {
							if pat := kv[kvn[0]]; pat != "" {
								okAlt := false
								for _, alt := range strings.Split(pat, " OR ") {
									if pathMatches(kvn[1], strings.TrimSpace(alt)) {
										okAlt = true
									}
								}
								if !okAlt {
									o.Pre = "sat"
									o.Model = "the " + kvn[0][3:] + " of the map update is " + kvn[1] + ", expected " + pat
								}
							}
						}
					}
					// required provenance of a returned value (retpath=N:PAT OR PAT)
					if rp := kv["retpath"]; rp != "" {
						parts := strings.SplitN(rp, ":", 2)
						var rn int
						fmt.Sscanf(parts[0], "%d", &rn)
						if r, isRet := in.(*ssa.Return); isRet && len(parts) == 2 && rn < len(r.Results) {
							got := valuePath(r.Results[rn])
							okAlt := false
							for _, alt := range strings.Split(parts[1], " OR ") {
								if pathMatches(got, strings.TrimSpace(alt)) {
									okAlt = true
								}
							}
							if !okAlt {
								o.Pre = "sat"
								o.Model = fmt.Sprintf("result %d is %s, expected %s", rn, got, parts[1])
							}
						}
					}
					// required origin of an argument (arg-from=N:PARAM): the parameter is in the backward data cone of the
					// argument (the argument is computed from it, not a constant or something unrelated)
					if af := kv["arg-from"]; af != "" {
						parts := strings.SplitN(af, ":", 2)
						var an int
						fmt.Sscanf(parts[0], "%d", &an)
						if c, isCall := in.(*ssa.Call); isCall && len(parts) == 2 && an < len(c.Call.Args) {
							cone := map[string]bool{}
							fieldsInCone(c.Call.Args[an], map[ssa.Value]bool{}, cone, 0)
							if !cone["param:"+parts[1]] {
								o.Pre = "sat"
								o.Model = fmt.Sprintf("argument %d is %s, which is not computed from parameter %s", an, valuePath(c.Call.Args[an]), parts[1])
							}
						}
					}
					// required key of a map lookup (keypath=PAT OR PAT; with when-map=PAT only lookups in that map count)
					if kp := kv["keypath"]; kp != "" {
						if lk, isLk := in.(*ssa.Lookup); isLk {
							got := valuePath(lk.Index)
							okAlt := false
							for _, alt := range strings.Split(kp, " OR ") {
								if pathMatches(got, strings.TrimSpace(alt)) {
									okAlt = true
								}
							}
							if !okAlt {
								o.Pre = "sat"
								o.Model = "the key looked up in " + valuePath(lk.X) + " is " + got + ", expected " + kp
							}
						}
					}
					// what an argument is computed from must have been read AFTER an update (arg-reads-after-store=N:T.f:VALPAT):
					// every load of field f of a T in the backward cone of argument N comes after (in the same iteration) a
					// store to that field whose value matches
					if ar := kv["arg-reads-after-store"]; ar != "" {
						parts := strings.SplitN(ar, ":", 3)
						var an int
						fmt.Sscanf(parts[0], "%d", &an)
						if c, isCall := in.(*ssa.Call); isCall && len(parts) == 3 && an < len(c.Call.Args) {
							var loads []ssa.Instruction
							seenV := map[ssa.Value]bool{}
							var walk func(v ssa.Value, depth int)
							walk = func(v ssa.Value, depth int) {
								if v == nil || seenV[v] || depth > 30 {
									return
								}
								seenV[v] = true
								if u, ok := v.(*ssa.UnOp); ok && u.Op == token.MUL {
									if fa, ok := u.X.(*ssa.FieldAddr); ok {
										if pt, ok := fa.X.Type().Underlying().(*types.Pointer); ok {
											if n, ok := pt.Elem().(*types.Named); ok {
												if st, ok := n.Underlying().(*types.Struct); ok && n.Obj().Name()+"."+st.Field(fa.Field).Name() == parts[1] {
													loads = append(loads, u)
												}
											}
										}
									}
								}
								if instr, ok := v.(ssa.Instruction); ok {
									for _, op := range instr.Operands(nil) {
										if op != nil && *op != nil {
											walk(*op, depth+1)
										}
									}
								}
							}
							walk(c.Call.Args[an], 0)
							if len(loads) == 0 {
								o.Pre = "sat"
								o.Model = fmt.Sprintf("argument %d (%s) is not computed from a read of %s", an, valuePath(c.Call.Args[an]), parts[1])
							}
							for _, ld := range loads {
								if !storeBefore(p, ld, parts[1], parts[2]) {
									o.Pre = "sat"
									o.Model = fmt.Sprintf("argument %d (%s) is computed from a read of %s that no store of %s can precede: the update comes too late for it", an, valuePath(c.Call.Args[an]), parts[1], parts[2])
								}
							}
						}
					}
					// a decision that belongs to the site (then-reads=T.f): the function reads field f of a T either before the
					// site on every path or somewhere reachable from it (e.g. "wrap the call in await if the callee is async")
					if tr := kv["then-reads"]; tr != "" {
						if !readsFieldAround(in, tr) {
							o.Pre = "sat"
							o.Model = "no read of " + tr + " dominates this site or is reachable from it: what is built here never depends on it"
						}
					}
					// required shape of the written location (targetpath=pat | pat)
					if tp := kv["targetpath"]; tp != "" {
						if st, isStore := in.(*ssa.Store); isStore {
							got := valuePath(st.Addr)
							okAny := false
							for _, alt := range splitList(tp, "|") {
								if pathMatches(got, alt) {
									okAny = true
								}
							}
							if !okAny {
								o.Pre = "sat"
								o.Model = "the store writes " + got + ", expected one of " + tp
							}
						}
					}
					// forbidden target of a store (target-not-from=<parameter>): the written location must not be memory
					// reached from the parameter (a write through it is visible to the caller)
					if tf := kv["target-not-from"]; tf != "" {
						if st, isStore := in.(*ssa.Store); isStore {
							roots := map[string]bool{}
							addrRoots(st.Addr, map[ssa.Value]bool{}, roots, 0)
							if roots["param:"+tf] {
								o.Pre = "sat"
								o.Model = "the store writes " + valuePath(st.Addr) + ", memory reached from parameter " + tf
							}
						}
					}
					// required map operand of a lookup
					if mp := kv["mappath"]; mp != "" {
						if lk, isLk := in.(*ssa.Lookup); isLk {
							got := valuePath(lk.X)
							okAny := false
							for _, alt := range splitList(mp, "|") {
								if pathMatches(got, alt) {
									okAny = true
								}
							}
							if !okAny {
								o.Pre = "sat"
								o.Model = "the map read is " + got + ", expected one of " + mp
							}
						}
					}
					// required argument provenance
					for _, ap := range splitList(kv["argpath"], "|") {
						parts := strings.SplitN(ap, ":", 2)
						var an int
						fmt.Sscanf(parts[0], "%d", &an)
						if c, isCall := in.(*ssa.Call); isCall && len(parts) == 2 && an < len(c.Call.Args) {
							got := valuePath(c.Call.Args[an])
							okAlt := false
							for _, alt := range strings.Split(parts[1], " OR ") {
								if pathMatches(got, strings.TrimSpace(alt)) {
									okAlt = true
								}
							}
							if !okAlt {
								o.Pre = "sat"
								o.Model = fmt.Sprintf("argument %d is %s, expected %s", an, got, parts[1])
							}
						}
					}
					// forbidden argument provenance (argnot=N:pat OR pat): the argument must match none of the alternatives
					for _, ap := range splitList(kv["argnot"], "|") {
						parts := strings.SplitN(ap, ":", 2)
						var an int
						fmt.Sscanf(parts[0], "%d", &an)
						if c, isCall := in.(*ssa.Call); isCall && len(parts) == 2 && an < len(c.Call.Args) {
							got := valuePath(c.Call.Args[an])
							for _, alt := range strings.Split(parts[1], " OR ") {
								if pathMatches(got, strings.TrimSpace(alt)) {
									o.Pre = "sat"
									o.Model = fmt.Sprintf("argument %d is %s, which must not be %s", an, got, strings.TrimSpace(alt))
								}
							}
						}
					}
					if o.Pre == "sat" && kv["scenario"] != "" {
						o.ReplayTemplate = kv["scenario"]
						o.ReplayPkgDir = strings.TrimPrefix(strings.TrimPrefix(d.Pkg, modPath), "/")
					}
					g.Obligs = append(g.Obligs, o)
				}
			}
		}
		if n == 0 {
			errs = append(errs, "contract-stale: "+d.Kind+" rule "+name+" matches no site")
		}
		gens = append(gens, g)
	}
	return gens, errs
}

// pathMatches compares an access path with a pattern in which "*" matches any run of characters.
func pathMatches(got, pat string) bool {
	if strings.Contains(pat, " OR ") {
		for _, alt := range strings.Split(pat, " OR ") {
			if pathMatches(got, strings.TrimSpace(alt)) {
				return true
			}
		}
		return false
	}
	parts := strings.Split(pat, "*")
	pos := 0
	for i, part := range parts {
		if i == len(parts)-1 && i > 0 {
			// the last literal run must be a suffix (a "*" before it may swallow nested brackets)
			return strings.HasSuffix(got[pos:], part)
		}
		k := strings.Index(got[pos:], part)
		if k < 0 {
			return false
		}
		if i == 0 && k != 0 {
			return false
		}
		pos += k + len(part)
	}
	if !strings.HasSuffix(pat, "*") && pos != len(got) {
		return false
	}
	return true
}
