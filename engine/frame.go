package main

import (
	"fmt"
	"go/token"
	"go/types"
	"sort"
	"strings"

	"golang.org/x/tools/go/ssa"
)

type Loop struct {
	Header  *ssa.BasicBlock
	Blocks  map[*ssa.BasicBlock]bool
	Back    []*ssa.BasicBlock // predecessors of header inside the loop
	Entry   []*ssa.BasicBlock // predecessors of header outside the loop
	Ordinal int
	Mods    *ModSet
	// recorded at the header for the back-edge checks
	decrAtHead []Val
	headHeap   *HeapState
	// the values the header phis have when the loop is entered (for `atentry(x)` in invariants)
	entryVals map[ssa.Value]Val
}

type nameDef struct {
	val    ssa.Value
	block  *ssa.BasicBlock
	idx    int
	isAddr bool
	obj    types.Object
}

type Frame struct {
	subst      bool // see leafExpr
	g          *Gen
	fn         *ssa.Function
	sfx        string
	top        bool
	vals       map[ssa.Value]Val
	reach      map[*ssa.BasicBlock]string
	heapOut    map[*ssa.BasicBlock]*HeapState
	loops      []*Loop
	loopAt     map[*ssa.BasicBlock]*Loop
	order      []*ssa.BasicBlock
	backEdge   map[[2]int]bool
	args       []Val
	cur        *HeapState
	curBlock   *ssa.BasicBlock
	curReach   string
	entry      *HeapState
	entryReach string
	names      map[string][]nameDef
	depth      map[*ssa.BasicBlock]int
	retReach   []string
	retVals    [][]Val
	retHeaps   []*HeapState
	defers     []*ssa.Defer
	results    []Val
	exitHeap   *HeapState
	exitReach  string
	instrIdx   map[ssa.Instruction]int
	freeVars   map[*ssa.FreeVar]Val
	closures   map[*ssa.MakeClosure]bool
	ranges     map[*ssa.Range]*HeapState
	cells      map[string][]*ssa.Alloc
}

func (g *Gen) newFrame(fn *ssa.Function, sfx string, top bool) *Frame {
	f := &Frame{g: g, fn: fn, sfx: sfx, top: top, vals: map[ssa.Value]Val{}, reach: map[*ssa.BasicBlock]string{},
		heapOut: map[*ssa.BasicBlock]*HeapState{}, loopAt: map[*ssa.BasicBlock]*Loop{}, backEdge: map[[2]int]bool{},
		names: map[string][]nameDef{}, depth: map[*ssa.BasicBlock]int{}, instrIdx: map[ssa.Instruction]int{}, freeVars: map[*ssa.FreeVar]Val{},
		closures: map[*ssa.MakeClosure]bool{}, ranges: map[*ssa.Range]*HeapState{}}
	f.analyse()
	return f
}

func (f *Frame) pos(p token.Pos) string {
	if !p.IsValid() {
		return ""
	}
	ps := f.g.P.Fset.Position(p)
	return fmt.Sprintf("%s:%d", strings.TrimPrefix(ps.Filename, f.g.P.Repo+"/"), ps.Line)
}

// analyse computes block order, loops and the name table.
func (f *Frame) analyse() {
	fn := f.fn
	if len(fn.Blocks) == 0 {
		return
	}
	for _, b := range fn.Blocks {
		d := 0
		for x := b.Idom(); x != nil; x = x.Idom() {
			d++
		}
		f.depth[b] = d
		for i, in := range b.Instrs {
			f.instrIdx[in] = i
		}
	}
	// back edges: q -> h with h dominating q
	for _, b := range fn.Blocks {
		for _, s := range b.Succs {
			if s.Dominates(b) {
				f.backEdge[[2]int{b.Index, s.Index}] = true
				lp := f.loopAt[s]
				if lp == nil {
					lp = &Loop{Header: s, Blocks: map[*ssa.BasicBlock]bool{s: true}}
					f.loopAt[s] = lp
					f.loops = append(f.loops, lp)
				}
				lp.Back = append(lp.Back, b)
				// natural loop body
				stack := []*ssa.BasicBlock{b}
				for len(stack) > 0 {
					x := stack[len(stack)-1]
					stack = stack[:len(stack)-1]
					if lp.Blocks[x] {
						continue
					}
					lp.Blocks[x] = true
					for _, p := range x.Preds {
						stack = append(stack, p)
					}
				}
			}
		}
	}
	sort.Slice(f.loops, func(i, j int) bool { return f.loops[i].Header.Index < f.loops[j].Header.Index })
	for i, lp := range f.loops {
		lp.Ordinal = i
		for _, p := range lp.Header.Preds {
			if !lp.Blocks[p] || !f.backEdge[[2]int{p.Index, lp.Header.Index}] {
				if !f.backEdge[[2]int{p.Index, lp.Header.Index}] {
					lp.Entry = append(lp.Entry, p)
				}
			}
		}
	}
	// reverse postorder ignoring back edges
	seen := map[*ssa.BasicBlock]bool{}
	var post []*ssa.BasicBlock
	var dfs func(b *ssa.BasicBlock)
	dfs = func(b *ssa.BasicBlock) {
		seen[b] = true
		for _, s := range b.Succs {
			if f.backEdge[[2]int{b.Index, s.Index}] || seen[s] {
				continue
			}
			dfs(s)
		}
		post = append(post, b)
	}
	dfs(fn.Blocks[0])
	for i := len(post) - 1; i >= 0; i-- {
		f.order = append(f.order, post[i])
	}
	// names
	f.cells = map[string][]*ssa.Alloc{}
	for _, b := range fn.Blocks {
		for i, in := range b.Instrs {
			switch in := in.(type) {
			case *ssa.Alloc:
				if in.Comment != "" && in.Comment != "complit" && in.Comment != "varargs" && in.Comment != "slicelit" && in.Comment != "makeslice" {
					f.cells[in.Comment] = append(f.cells[in.Comment], in)
				}
			case *ssa.Phi:
				if in.Comment != "" {
					f.names[in.Comment] = append(f.names[in.Comment], nameDef{val: in, block: b, idx: i})
					// the index of an enclosing range loop can be named from an inner loop as rangeindexL<ordinal>
					if in.Comment == "rangeindex" {
						if lp := f.loopAt[b]; lp != nil {
							n := fmt.Sprintf("rangeindexL%d", lp.Ordinal)
							f.names[n] = append(f.names[n], nameDef{val: in, block: b, idx: i})
						}
					}
				}
			case *ssa.DebugRef:
				obj := in.Object()
				if obj == nil {
					continue
				}
				if _, isVar := obj.(*types.Var); !isVar {
					continue
				}
				nd := nameDef{val: in.X, block: b, idx: i, isAddr: in.IsAddr, obj: obj}
				if def, ok := in.X.(ssa.Instruction); ok && def.Block() != nil {
					nd.block = def.Block()
					nd.idx = f.instrIdx[def]
				}
				f.names[obj.Name()] = append(f.names[obj.Name()], nd)
			}
		}
	}
}

// loopMods computes the heap maps a loop body may write.
func (f *Frame) loopMods(lp *Loop) *ModSet {
	ms := &ModSet{Maps: map[string]bool{}}
	for b := range lp.Blocks {
		for _, in := range b.Instrs {
			switch in := in.(type) {
			case *ssa.Store:
				if a, path, priv := privRoot(in.Addr); priv {
					f.privKeys(f.privKey(a)+path, in.Addr.Type().Underlying().(*types.Pointer).Elem(), ms)
				} else {
					f.g.P.storeKeys(in.Addr, ms)
				}
			case *ssa.Alloc:
				if privateAlloc(in) {
					f.privKeys(f.privKey(in), in.Type().Underlying().(*types.Pointer).Elem(), ms)
				}
			case *ssa.MapUpdate:
				ms.Maps[mapKey(in.Map.Type())+"!d"] = true
				ms.Maps[mapKey(in.Map.Type())+"!v"] = true
			case *ssa.Go:
				// the spawned goroutine runs concurrently; interference is not modelled (listed assumption)
			case ssa.CallInstruction:
				f.g.callMods(in.Common(), ms)
			}
		}
	}
	return ms
}

func (f *Frame) privKeys(key string, t types.Type, ms *ModSet) {
	if st, ok := t.Underlying().(*types.Struct); ok {
		for i := 0; i < st.NumFields(); i++ {
			f.privKeys(fmt.Sprintf("%s.%d", key, i), st.Field(i).Type(), ms)
		}
		return
	}
	ms.Maps[key] = true
}

func (g *Gen) callMods(c *ssa.CallCommon, ms *ModSet) {
	if c.IsInvoke() {
		ms.All = true
		return
	}
	switch cv := c.Value.(type) {
	case *ssa.Builtin:
		switch cv.Name() {
		case "copy":
			if st, ok := c.Args[0].Type().Underlying().(*types.Slice); ok {
				g.P.typeKeys(st.Elem(), true, ms)
			}
		case "append":
			if st, ok := c.Args[0].Type().Underlying().(*types.Slice); ok {
				g.P.typeKeys(st.Elem(), true, ms)
			}
		case "delete":
			ms.Maps[mapKey(c.Args[0].Type())+"!d"] = true
			ms.Maps[mapKey(c.Args[0].Type())+"!v"] = true
		case "clear":
			ms.All = true
		}
	case *ssa.Function:
		if g.isIntrinsic(cv) {
			return
		}
		if fc := g.P.ContractFor(cv); fc != nil && fc.Opts["pure"] != "" {
			return
		}
		ms.add(g.P.ModSetOf(cv))
	case *ssa.MakeClosure:
		if cf, ok := cv.Fn.(*ssa.Function); ok {
			ms.add(g.P.ModSetOf(cf))
		} else {
			ms.All = true
		}
	default:
		ms.All = true
	}
}

// resolveName finds the SSA value bound to a source-level variable name at the start of block b
// (after its phis).
func (f *Frame) resolveName(name string, b *ssa.BasicBlock) (nameDef, bool) {
	return f.resolveNameAt(name, b, -1)
}

// resolveNameAt: like resolveName, but at instruction index upTo of block b (definitions earlier in b count).
func (f *Frame) resolveNameAt(name string, b *ssa.BasicBlock, upTo int) (nameDef, bool) {
	var best *nameDef
	// a variable that lives in a cell (captured by a closure or address-taken): its current value is the
	// content of the cell in the current heap, not an earlier load
	if b != nil {
		for _, al := range f.cells[name] {
			ab := al.Block()
			if ab == b && f.instrIdx[al] >= upTo && upTo >= 0 {
				continue
			}
			if ab != b && !ab.Dominates(b) {
				continue
			}
			if ab == b && upTo < 0 {
				continue
			}
			return nameDef{val: al, block: ab, idx: f.instrIdx[al], isAddr: true}, true
		}
	}
	cands := f.names[name]
	for i := range cands {
		c := &cands[i]
		ok := false
		if b == nil {
			ok = false
		} else if c.block == b {
			_, isPhi := c.val.(*ssa.Phi)
			ok = (isPhi && c.val.(*ssa.Phi).Block() == b) || c.idx < upTo
		} else if c.block.Dominates(b) {
			ok = true
		}
		if !ok {
			continue
		}
		if best == nil || f.depth[c.block] > f.depth[best.block] || (c.block == best.block && c.idx > best.idx) {
			best = c
		}
	}
	if best == nil {
		return nameDef{}, false
	}
	return *best, true
}

func (f *Frame) symName(v ssa.Value) string {
	return "$" + sanitize(v.Name()) + f.sfx
}

// val returns the SMT value for an SSA value.
func (f *Frame) val(v ssa.Value) Val {
	if x, ok := f.vals[v]; ok {
		return x
	}
	g := f.g
	switch v := v.(type) {
	case *ssa.Const:
		return g.constVal(v)
	case *ssa.Global:
		return g.globalAddr(v)
	case *ssa.Function:
		n := "fn!" + sanitize(v.String())
		g.declConst(n, "Ptr")
		return Val{S: n, Sort: "Ptr", GT: v.Type()}
	case *ssa.Builtin:
		return Val{S: "nilptr", Sort: "Ptr", GT: v.Type()}
	case *ssa.FreeVar:
		if x, ok := f.freeVars[v]; ok {
			return x
		}
		n := g.declConst("$fv_"+sanitize(v.Name())+f.sfx, g.sortOf(v.Type()))
		x := Val{S: n, Sort: g.sortOf(v.Type()), GT: v.Type()}
		f.freeVars[v] = x
		return x
	}
	// value used before definition (should not happen in RPO except through cut back edges)
	g.note(fmt.Sprintf("value %s used before its definition in %s; treated as unconstrained", v.Name(), f.fn.Name()))
	x := g.havocVal(v.Name(), v.Type())
	f.vals[v] = x
	return x
}

func (g *Gen) globalAddr(v *ssa.Global) Val {
	n := "glob!" + sanitize(v.Pkg.Pkg.Name()+"."+v.Name())
	if !g.declared[n] {
		g.globalCount++
		g.declConst(n, "Ptr")
		g.decl(fmt.Sprintf("(assert (= %s (mk-ptr (- %d) root)))", n, g.globalCount))
	}
	return Val{S: n, Sort: "Ptr", GT: v.Type(), Place: &Place{Kind: 3, Ptr: n}}
}

// define binds an SSA value to a fresh SMT constant equal to the given term.
func (f *Frame) define(v ssa.Value, x Val) Val {
	if x.Sort == "Tuple" {
		f.vals[v] = x
		return x
	}
	if f.subst {
		// substitution mode (leafExpr): values stay expressions so that they may mention bound variables
		f.vals[v] = x
		return x
	}
	n := f.g.declConst(f.symName(v), x.Sort)
	f.g.assumeDef(n, eq(n, x.S))
	x.S = n
	f.vals[v] = x
	return x
}

func (f *Frame) edgeCond(p, b *ssa.BasicBlock) string {
	r := f.reach[p]
	if r == "" {
		return "false"
	}
	last := p.Instrs[len(p.Instrs)-1]
	if iff, ok := last.(*ssa.If); ok {
		c := f.val(iff.Cond).S
		if p.Succs[0] == b && p.Succs[1] == b {
			return r
		}
		if p.Succs[0] == b {
			return and(r, c)
		}
		return and(r, not(c))
	}
	return r
}

func (f *Frame) alloc() string { return f.cur.get("$alloc") }

// Walk symbolically executes the function body.
func (f *Frame) Walk(args []Val, heap *HeapState, reach string) {
	g := f.g
	fn := f.fn
	f.args = args
	f.entry = heap
	f.entryReach = reach
	for i, p := range fn.Params {
		f.vals[p] = args[i]
	}
	for _, b := range f.order {
		f.curBlock = b
		lp := f.loopAt[b]
		if b == fn.Blocks[0] {
			f.curReach = reach
			f.cur = heap.child()
		} else if lp != nil {
			f.enterLoop(lp)
		} else {
			var conds []string
			var hs []*HeapState
			for _, p := range b.Preds {
				if f.reach[p] == "" {
					continue // unreachable predecessor (e.g. recover block)
				}
				conds = append(conds, f.edgeCond(p, b))
				hs = append(hs, f.heapOut[p])
			}
			if len(hs) == 0 {
				f.reach[b] = ""
				continue
			}
			f.curReach = f.nameReach(b, or(conds...))
			f.cur = g.mergeHeaps(hs, conds)
		}
		f.reach[b] = f.curReach
		for _, in := range b.Instrs {
			f.instr(in)
		}
		f.cur.frozen = true
		f.heapOut[b] = f.cur
		// back edges leaving this block
		for _, s := range b.Succs {
			if f.backEdge[[2]int{b.Index, s.Index}] {
				f.closeLoop(f.loopAt[s], b)
			}
		}
		// loop exits leaving this block
		if f.top {
			for _, lp := range f.loops {
				if !lp.Blocks[b] {
					continue
				}
				for _, s := range b.Succs {
					if lp.Blocks[s] {
						continue
					}
					for i, c := range f.loopClauses(lp, "exit") {
						env := f.envAt(b, f.heapOut[b], nil)
						env.upTo = len(b.Instrs)
						goal := env.trBool(c.E)
						f.g.addOblig(&Oblig{Name: f.obName(fmt.Sprintf("loop%d.exit", lp.Ordinal), c, i), Kind: "loop-exit",
							Goal: implies(f.edgeCond(b, s), goal), Pos: f.pos(lastPos(b)), Text: c.Text, ClauseProps: c.Props})
					}
				}
			}
		}
	}
	// merge returns
	f.finish()
}

func (f *Frame) nameReach(b *ssa.BasicBlock, def string) string {
	if def == "true" || def == "false" || !strings.HasPrefix(def, "(") {
		return def
	}
	n := f.g.declConst(fmt.Sprintf("r!%d%s", b.Index, f.sfx), "Bool")
	f.g.assumeDef(n, eq(n, def))
	return n
}

func (f *Frame) finish() {
	g := f.g
	sig := f.fn.Signature
	nres := sig.Results().Len()
	if len(f.retReach) == 0 {
		f.exitReach = "false"
		f.exitHeap = f.entry
		for i := 0; i < nres; i++ {
			f.results = append(f.results, g.havocVal("res", sig.Results().At(i).Type()))
		}
		return
	}
	if len(f.retReach) == 1 {
		f.exitReach = f.retReach[0]
		f.exitHeap = f.retHeaps[0]
		f.results = f.retVals[0]
		return
	}
	f.exitReach = or(f.retReach...)
	n := g.declConst("r!exit"+f.sfx, "Bool")
	g.assumeDef(n, eq(n, f.exitReach))
	f.exitReach = n
	f.exitHeap = g.mergeHeaps(f.retHeaps, f.retReach)
	for i := 0; i < nres; i++ {
		t := sig.Results().At(i).Type()
		same := true
		for _, rv := range f.retVals {
			if rv[i].S != f.retVals[0][i].S {
				same = false
			}
		}
		if same {
			f.results = append(f.results, f.retVals[0][i])
			continue
		}
		rn := g.declConst(fmt.Sprintf("$result%d%s", i, f.sfx), g.sortOf(t))
		for k, rv := range f.retVals {
			g.assumeDef(rn, implies(f.retReach[k], eq(rn, rv[i].S)))
		}
		f.results = append(f.results, Val{S: rn, Sort: g.sortOf(t), GT: t})
	}
}

// ---------------------------------------------------------------------------------------
// Loops

func (f *Frame) loopClauses(lp *Loop, kind string) []*Clause {
	var out []*Clause
	if f.g.FC == nil || !f.top {
		return nil
	}
	for _, c := range f.g.FC.Clauses {
		if c.Loop == lp.Ordinal && c.Kind == kind {
			out = append(out, c)
		}
	}
	// every `for ... range` loop over a slice gets the invariant that its hidden index is at least -1
	if kind == "invariant" {
		for _, in := range lp.Header.Instrs {
			phi, ok := in.(*ssa.Phi)
			if !ok {
				break
			}
			if phi.Comment == "rangeindex" {
				if autoRangeClause == nil {
					e, _ := ParseExpr("rangeindex >= -1")
					autoRangeClause = &Clause{Kind: "invariant", Label: "auto-rangeindex", Text: "rangeindex >= -1", E: e}
				}
				c := *autoRangeClause
				c.Loop = lp.Ordinal
				out = append(out, &c)
				break
			}
		}
	}
	// opt auto-counters (sweep mode): a named integer loop variable that starts at a constant and is only ever
	// incremented by non-negative constants never drops below its start value
	if kind == "invariant" && f.g.FC.Opts["auto-counters"] != "" {
		for _, in := range lp.Header.Instrs {
			phi, ok := in.(*ssa.Phi)
			if !ok {
				break
			}
			if phi.Comment == "" || phi.Comment == "rangeindex" {
				continue
			}
			if b, isB := phi.Type().Underlying().(*types.Basic); !isB || b.Info()&types.IsInteger == 0 {
				continue
			}
			c, ok := f.lowerBoundOf(phi, 0)
			if !ok {
				continue
			}
			lo := &c
			txt := fmt.Sprintf("%s >= %d", phi.Comment, *lo)
			e, err := ParseExpr(txt)
			if err != nil {
				continue
			}
			out = append(out, &Clause{Kind: "invariant", Label: "auto-counter-" + phi.Comment, Text: txt, E: e, Loop: lp.Ordinal})
		}
	}
	return out
}

// lowerBoundOf: a constant lower bound of an integer SSA value built from constants, additions of non-negative
// constants, merges, and loop counters that are only incremented.
func (f *Frame) lowerBoundOf(v ssa.Value, depth int) (int64, bool) {
	if depth > 6 {
		return 0, false
	}
	switch x := v.(type) {
	case *ssa.Const:
		if x.Value == nil {
			return 0, false
		}
		if b, isB := x.Type().Underlying().(*types.Basic); !isB || b.Info()&types.IsInteger == 0 {
			return 0, false
		}
		return x.Int64(), true
	case *ssa.BinOp:
		if x.Op != token.ADD {
			return 0, false
		}
		if k, ok := x.Y.(*ssa.Const); ok && k.Value != nil && k.Int64() >= 0 {
			if lb, ok := f.lowerBoundOf(x.X, depth+1); ok {
				return lb + k.Int64(), true
			}
		}
		return 0, false
	case *ssa.Phi:
		lp := f.loopAt[x.Block()]
		var lo int64
		have := false
		for i, pred := range x.Block().Preds {
			e := x.Edges[i]
			if lp != nil && lp.Blocks[pred] && f.backEdge[[2]int{pred.Index, x.Block().Index}] {
				if !onlyIncrements(e, x, lp, 0) {
					return 0, false
				}
				continue
			}
			lb, ok := f.lowerBoundOf(e, depth+1)
			if !ok {
				return 0, false
			}
			if !have || lb < lo {
				lo, have = lb, true
			}
		}
		return lo, have
	}
	return 0, false
}

// onlyIncrements: v is phi, or phi plus non-negative constants, possibly merged by phis inside the loop.
func onlyIncrements(v ssa.Value, phi *ssa.Phi, lp *Loop, depth int) bool {
	return onlyIncrementsRec(v, phi, lp, map[ssa.Value]bool{})
}

func onlyIncrementsRec(v ssa.Value, phi *ssa.Phi, lp *Loop, seen map[ssa.Value]bool) bool {
	if v == ssa.Value(phi) || seen[v] {
		return true // reached the counter itself, or a merge already being examined (coinductively fine)
	}
	switch x := v.(type) {
	case *ssa.BinOp:
		if x.Op != token.ADD {
			return false
		}
		if k, ok := x.Y.(*ssa.Const); ok && k.Value != nil && k.Int64() >= 0 {
			return onlyIncrementsRec(x.X, phi, lp, seen)
		}
		if k, ok := x.X.(*ssa.Const); ok && k.Value != nil && k.Int64() >= 0 {
			return onlyIncrementsRec(x.Y, phi, lp, seen)
		}
	case *ssa.Phi:
		if !lp.Blocks[x.Block()] {
			return false
		}
		seen[x] = true
		for _, e := range x.Edges {
			if !onlyIncrementsRec(e, phi, lp, seen) {
				return false
			}
		}
		return true
	}
	return false
}

var autoRangeClause *Clause

func (f *Frame) enterLoop(lp *Loop) {
	g := f.g
	b := lp.Header
	var conds []string
	var hs []*HeapState
	var preds []*ssa.BasicBlock
	for _, p := range lp.Entry {
		if f.reach[p] == "" {
			continue
		}
		conds = append(conds, f.edgeCond(p, b))
		hs = append(hs, f.heapOut[p])
		preds = append(preds, p)
	}
	if len(hs) == 0 {
		f.curReach = "false"
		f.cur = f.entry.child()
		return
	}
	f.curReach = f.nameReach(b, or(conds...))
	pre := g.mergeHeaps(hs, conds)
	// values of header phis on entry
	over := map[ssa.Value]Val{}
	for _, in := range b.Instrs {
		phi, ok := in.(*ssa.Phi)
		if !ok {
			break
		}
		var vals []Val
		for _, p := range preds {
			for i, pp := range b.Preds {
				if pp == p {
					vals = append(vals, f.val(phi.Edges[i]))
					break
				}
			}
		}
		if len(vals) == 1 {
			over[phi] = vals[0]
		} else {
			n := g.freshConst("phi_entry_"+phi.Name(), g.sortOf(phi.Type()))
			for i, v := range vals {
				g.assumeDef(n, implies(conds[i], eq(n, v.S)))
			}
			over[phi] = Val{S: n, Sort: g.sortOf(phi.Type()), GT: phi.Type()}
		}
	}
	lp.entryVals = over
	// invariant holds on entry
	if f.top {
		for i, c := range f.loopClauses(lp, "invariant") {
			env := f.envAt(b, pre, over)
			goal := env.trBool(c.E)
			g.addOblig(&Oblig{Name: f.obName(fmt.Sprintf("loop%d.inv-entry", lp.Ordinal), c, i), Kind: "invariant-entry",
				Goal: implies(f.curReach, goal), Pos: f.pos(b.Instrs[0].Pos()), Text: c.Text, ClauseProps: c.Props})
		}
	}
	// havoc
	lp.Mods = f.loopMods(lp)
	f.cur = pre.havoc(lp.Mods, fmt.Sprintf("loop%d", lp.Ordinal))
	for _, in := range b.Instrs {
		phi, ok := in.(*ssa.Phi)
		if !ok {
			break
		}
		v := g.havocVal(f.symName(phi)[1:], phi.Type())
		f.vals[phi] = v
		g.assumeDef(v.S, implies(f.curReach, g.typeInv(v, f.alloc())))
	}
	lp.headHeap = f.cur
	if f.top {
		env := f.envAt(b, f.cur, nil)
		for _, c := range f.loopClauses(lp, "invariant") {
			g.assume(implies(f.curReach, env.trBool(c.E)))
		}
		lp.decrAtHead = nil
		for _, c := range f.loopClauses(lp, "decreases") {
			lp.decrAtHead = append(lp.decrAtHead, env.tr(c.E))
		}
	}
}

func (f *Frame) closeLoop(lp *Loop, from *ssa.BasicBlock) {
	g := f.g
	if !f.top || lp == nil {
		return
	}
	b := lp.Header
	cond := f.edgeCond(from, b)
	over := map[ssa.Value]Val{}
	for _, in := range b.Instrs {
		phi, ok := in.(*ssa.Phi)
		if !ok {
			break
		}
		for i, pp := range b.Preds {
			if pp == from {
				over[phi] = f.val(phi.Edges[i])
			}
		}
	}
	env := f.envAt(b, f.heapOut[from], over)
	// back edges are numbered by the block order of their sources (names must not depend on block indices)
	beIdx := 0
	for _, q := range lp.Back {
		if q.Index < from.Index {
			beIdx++
		}
	}
	for i, c := range f.loopClauses(lp, "invariant") {
		goal := env.trBool(c.E)
		g.addOblig(&Oblig{Name: f.obName(fmt.Sprintf("loop%d.inv-preserved.e%d", lp.Ordinal, beIdx), c, i), Kind: "invariant-preserved",
			Goal: implies(cond, goal), Pos: f.pos(lastPos(from)), Text: c.Text, ClauseProps: c.Props})
	}
	for i, c := range f.loopClauses(lp, "decreases") {
		nv := env.tr(c.E)
		ov := lp.decrAtHead[i]
		var goal string
		if g.BV {
			goal = and(app("bvsge", ov.S, bvLit(bigZero, 64)), app("bvslt", nv.S, ov.S))
		} else {
			goal = and(app(">=", ov.S, "0"), app("<", nv.S, ov.S))
		}
		g.addOblig(&Oblig{Name: f.obName(fmt.Sprintf("loop%d.decreases.e%d", lp.Ordinal, beIdx), c, i), Kind: "decreases",
			Goal: implies(cond, goal), Pos: f.pos(lastPos(from)), Text: c.Text, ClauseProps: c.Props})
	}
}

func lastPos(b *ssa.BasicBlock) token.Pos {
	for i := len(b.Instrs) - 1; i >= 0; i-- {
		if p := b.Instrs[i].Pos(); p.IsValid() {
			return p
		}
	}
	return token.NoPos
}

func (f *Frame) obName(kind string, c *Clause, i int) string {
	pkg, name := ContractName(f.g.Fn)
	short := pkg[strings.LastIndex(pkg, "/")+1:]
	lab := fmt.Sprint(i)
	if c != nil && c.Label != "" {
		lab = c.Label
	}
	return fmt.Sprintf("%s.%s#%s:%s", short, name, kind, lab)
}

func (g *Gen) addOblig(o *Oblig) {
	o.NAsserts = len(g.asserts)
	if g.FC != nil {
		o.Props = g.FC.Props
	}
	if len(o.ClauseProps) > 0 {
		o.Props = o.ClauseProps
	}
	pkg, name := ContractName(g.Fn)
	o.Fn = pkg + "." + name
	// a function-level scenario replays a fixed history against the real code for ANY failing obligation of the
	// function (loop invariants included), unless the obligation carries its own template or is a vacuity cover
	if g.FC != nil && g.FC.Opts["scenario"] != "" && o.ReplayTemplate == "" && !o.Cover && !isSafetyKind(o.Kind) {
		o.ReplayTemplate = g.FC.Opts["scenario"]
		o.ReplayPkgDir = strings.TrimPrefix(strings.TrimPrefix(g.FC.Pkg, modPath), "/")
	}
	// unique names
	base := o.Name
	for k := 2; g.obNames[o.Name]; k++ {
		o.Name = fmt.Sprintf("%s~%d", base, k)
	}
	g.obNames[o.Name] = true
	g.Obligs = append(g.Obligs, o)
}
