package main

import (
	"fmt"
	"go/constant"
	"go/token"
	"go/types"
	"math/big"
	"strconv"
	"strings"

	"golang.org/x/tools/go/ssa"
)

type specError struct{ msg string }

// Env is the context in which a spec expression is translated.
type Env struct {
	g           *Gen
	f           *Frame
	at          *ssa.BasicBlock
	heap        *HeapState
	old         *HeapState
	bind        map[string]Val
	over        map[ssa.Value]Val
	results     []Val
	pkg         *types.Package
	reach       string
	symHeap     *symHeap // when translating a spec function body
	inOld       bool
	nowHeap     *HeapState // the post-state while translating inside old(...) (see now())
	inQuant     int
	lemmaFrame  *Frame
	upTo        int
	appendArg   ssa.Value
	appendFrame *Frame
}

type symHeap struct {
	keys  []string
	names map[string]string
}

func (f *Frame) envAt(b *ssa.BasicBlock, h *HeapState, over map[ssa.Value]Val) *Env {
	return &Env{g: f.g, f: f, at: b, heap: h, old: f.entry, bind: map[string]Val{}, over: over, pkg: f.fn.Pkg.Pkg, reach: f.curReach, upTo: -1}
}

func (e *Env) fail(format string, a ...interface{}) {
	panic(specError{fmt.Sprintf(format, a...)})
}

func (e *Env) heapGet(key string) string {
	if e.symHeap != nil {
		if n, ok := e.symHeap.names[key]; ok {
			return n
		}
		n := "h!" + sanitize(key)
		e.symHeap.names[key] = n
		e.symHeap.keys = append(e.symHeap.keys, key)
		return n
	}
	return e.heap.get(key)
}

// symbolic heap adapter so loadAt can be reused
func (e *Env) loadHeap() *HeapState {
	if e.symHeap != nil {
		return &HeapState{g: e.g, cache: map[string]string{}, symEnv: e}
	}
	return e.heap
}

func (e *Env) trBool(x Expr) string {
	v := e.tr(x)
	if v.Sort != "Bool" {
		e.fail("expected a boolean spec expression, got sort %s in %s", v.Sort, exprString(x))
	}
	return v.S
}

func (e *Env) child() *Env {
	c := *e
	c.bind = map[string]Val{}
	for k, v := range e.bind {
		c.bind[k] = v
	}
	return &c
}

func (e *Env) resolveType(s string) types.Type {
	s = strings.TrimSpace(s)
	switch s {
	case "int":
		return tInt
	case "bool":
		return tBool
	case "byte", "uint8":
		return tByte
	case "string":
		return tString
	case "float64":
		return tFloat64
	}
	if e.pkg != nil {
		tv, err := types.Eval(e.g.P.Fset, e.pkg, token.NoPos, s)
		if err == nil && tv.IsType() {
			return tv.Type
		}
		// qualified by package name: search imports and loaded packages
		if i := strings.LastIndex(s, "."); i > 0 {
			prefix := ""
			q := s
			for strings.HasPrefix(q, "*") || strings.HasPrefix(q, "[]") {
				if q[0] == '*' {
					prefix += "*"
					q = q[1:]
				} else {
					prefix += "[]"
					q = q[2:]
				}
			}
			j := strings.Index(q, ".")
			pn, tn := q[:j], q[j+1:]
			for path, sp := range e.g.P.Pkgs {
				if sp.Pkg.Name() == pn && (strings.HasPrefix(path, modPath) || !strings.Contains(path, "/")) {
					if obj := sp.Pkg.Scope().Lookup(tn); obj != nil {
						if tno, ok := obj.(*types.TypeName); ok {
							var t types.Type = tno.Type()
							for k := len(prefix); k > 0; {
								if prefix[k-1] == '*' {
									t = types.NewPointer(t)
									k--
								} else {
									t = types.NewSlice(t)
									k -= 2
								}
							}
							return t
						}
					}
				}
			}
		}
	}
	e.fail("cannot resolve type %q", s)
	return nil
}

// specSort maps spec-only type names to sorts.
func (e *Env) specSort(s string) (string, types.Type, bool) {
	s = strings.TrimSpace(s)
	switch s {
	case "mathint":
		if e.g.BV {
			e.fail("mathint is not available in arith bv")
		}
		return "Int", nil, true
	}
	if strings.HasPrefix(s, "bv") {
		if n, err := strconv.Atoi(s[2:]); err == nil {
			return fmt.Sprintf("(_ BitVec %d)", n), nil, true
		}
	}
	if strings.HasPrefix(s, "seq[") && strings.HasSuffix(s, "]") {
		et := e.resolveType(s[4 : len(s)-1])
		return fmt.Sprintf("(Array %s %s)", e.g.idxSort(), e.g.sortOf(et)), types.NewArray(et, 0), true
	}
	return "", nil, false
}

func (e *Env) tr(x Expr) Val {
	g := e.g
	switch x := x.(type) {
	case *ELit:
		return e.lit(x)
	case *EIdent:
		return e.ident(x.Name)
	case *EUnary:
		return e.unary(x)
	case *EBinary:
		return e.binary(x)
	case *ECond:
		c := e.trBool(x.C)
		a := e.tr(x.A)
		b := e.tr(x.B)
		a, b = e.unify(a, b)
		return Val{S: ite(c, a.S, b.S), Sort: a.Sort, GT: a.GT}
	case *EQuant:
		return e.quant(x)
	case *ESel:
		return e.sel(x)
	case *EIndex:
		return e.index(x)
	case *ECall:
		return e.call(x)
	case *ESlice:
		e.fail("slice expressions are only supported as arguments of seq-equality helpers: %s", exprString(x))
	}
	_ = g
	e.fail("unsupported spec expression %s", exprString(x))
	return Val{}
}

func (e *Env) lit(x *ELit) Val {
	g := e.g
	switch x.Kind {
	case "bool":
		return g.boolVal(x.Val)
	case "nil":
		return Val{S: "nil", Sort: "Nil"}
	case "int":
		bi, ok := new(big.Int).SetString(x.Val, 0)
		if !ok {
			e.fail("bad integer literal %s", x.Val)
		}
		return Val{S: bi.String(), Sort: "Untyped", Untyped: true, Big: bi}
	case "float":
		fv, err := strconv.ParseFloat(x.Val, 64)
		if err != nil {
			e.fail("bad float literal %s", x.Val)
		}
		return Val{S: fpLit64(fv), Sort: "Float64", GT: tFloat64}
	case "char":
		r, _, _, err := strconv.UnquoteChar(x.Val[1:len(x.Val)-1], '\'')
		if err != nil {
			e.fail("bad char literal %s", x.Val)
		}
		bi := big.NewInt(int64(r))
		return Val{S: bi.String(), Sort: "Untyped", Untyped: true, Big: bi}
	case "string":
		s, err := strconv.Unquote(x.Val)
		if err != nil {
			e.fail("bad string literal %s", x.Val)
		}
		return g.strConst(s)
	}
	e.fail("bad literal")
	return Val{}
}

// concretize gives an untyped constant the given Go type (or int).
func (e *Env) concretize(v Val, t types.Type) Val {
	if !v.Untyped {
		return v
	}
	if t == nil {
		t = tInt
	}
	if isFloat(t) {
		fv, _ := new(big.Float).SetInt(v.Big).Float64()
		if isFloat32(t) {
			return Val{S: fpLit32(float32(fv)), Sort: "Float32", GT: t}
		}
		return Val{S: fpLit64(fv), Sort: "Float64", GT: t}
	}
	r := e.g.intLit(v.Big, t)
	r.Big = v.Big
	return r
}

func (e *Env) concretizeSort(v Val, o Val) Val {
	if !v.Untyped {
		return v
	}
	if o.GT != nil {
		return e.concretize(v, o.GT)
	}
	if strings.HasPrefix(o.Sort, "(_ BitVec ") {
		var n int
		fmt.Sscanf(o.Sort, "(_ BitVec %d)", &n)
		return Val{S: bvLit(v.Big, n), Sort: o.Sort, Big: v.Big}
	}
	if o.Sort == "Int" {
		return Val{S: smtInt(v.Big), Sort: "Int", Big: v.Big}
	}
	if o.Sort == "Float64" {
		return e.concretize(v, tFloat64)
	}
	return e.concretize(v, tInt)
}

func (e *Env) unify(a, b Val) (Val, Val) {
	if a.Untyped && !b.Untyped {
		a = e.concretizeSort(a, b)
	} else if b.Untyped && !a.Untyped {
		b = e.concretizeSort(b, a)
	} else if a.Untyped && b.Untyped {
		a = e.concretize(a, tInt)
		b = e.concretize(b, tInt)
	}
	if a.Sort == "Nil" && b.Sort != "Nil" {
		a = e.nilOf(b)
	}
	if b.Sort == "Nil" && a.Sort != "Nil" {
		b = e.nilOf(a)
	}
	return a, b
}

func (e *Env) nilOf(o Val) Val {
	switch o.Sort {
	case "Ptr":
		return Val{S: "nilptr", Sort: "Ptr", GT: o.GT}
	case "Iface":
		return Val{S: "niliface", Sort: "Iface", GT: o.GT}
	case "Slice":
		return e.g.zero(o.GT)
	}
	e.fail("nil compared with a value of sort %s", o.Sort)
	return Val{}
}

func (e *Env) ident(name string) Val {
	g := e.g
	if v, ok := e.bind[name]; ok {
		return v
	}
	if strings.HasPrefix(name, "result") && len(name) > 6 {
		if n, err := strconv.Atoi(name[6:]); err == nil && n < len(e.results) {
			return e.results[n]
		}
	}
	if name == "result" {
		if len(e.results) == 0 {
			e.fail("'result' used where the function has no result")
		}
		return e.results[0]
	}
	if e.f != nil {
		// parameters
		for i, p := range e.f.fn.Params {
			if p.Name() == name {
				if e.at == nil {
					return e.f.args[i]
				}
				// a parameter may have been reassigned: prefer the resolved local if there is one
				if nd, ok := e.f.resolveNameAt(name, e.at, e.upTo); ok {
					return e.fromDef(nd)
				}
				return e.f.args[i]
			}
		}
		if e.at == nil {
			for i := 0; i < e.f.fn.Signature.Results().Len(); i++ {
				if e.f.fn.Signature.Results().At(i).Name() == name && i < len(e.results) {
					return e.results[i]
				}
			}
		}
		if e.at != nil {
			if nd, ok := e.f.resolveNameAt(name, e.at, e.upTo); ok {
				return e.fromDef(nd)
			}
		}
		for _, fv := range e.f.fn.FreeVars {
			if fv.Name() == name {
				// free variables are captured by reference: the cell's current content
				cell := e.f.val(fv)
				return g.loadAt(g.placeOf(cell), fv.Type().Underlying().(*types.Pointer).Elem(), e.loadHeap())
			}
		}
	}
	// package-level constants and variables
	if e.pkg != nil {
		if obj := e.pkg.Scope().Lookup(name); obj != nil {
			return e.pkgObject(obj)
		}
	}
	e.fail("unknown identifier %q", name)
	return Val{}
}

func (e *Env) pkgObject(obj types.Object) Val {
	g := e.g
	switch o := obj.(type) {
	case *types.Const:
		switch {
		case isBool(o.Type()):
			return g.boolVal(strconv.FormatBool(constant.BoolVal(o.Val())))
		case isString(o.Type()):
			return g.strConst(constant.StringVal(o.Val()))
		case isFloat(o.Type()):
			fv, _ := constant.Float64Val(o.Val())
			return Val{S: fpLit64(fv), Sort: "Float64", GT: tFloat64}
		}
		if bi, ok := constBig(o.Val()); ok {
			if b, isB := o.Type().Underlying().(*types.Basic); isB && b.Info()&types.IsUntyped != 0 {
				return Val{S: bi.String(), Sort: "Untyped", Untyped: true, Big: bi}
			}
			r := g.intLit(bi, o.Type())
			r.Big = bi
			return r
		}
	case *types.Var:
		sp := g.P.Pkgs[o.Pkg().Path()]
		if sp != nil {
			if gl, ok := sp.Members[o.Name()].(*ssa.Global); ok {
				if cv, ok := g.constGlobalVal(gl); ok {
					return cv
				}
				addr := g.globalAddr(gl)
				return g.loadAt(addr.Place, o.Type(), e.loadHeap())
			}
		}
	}
	e.fail("unsupported package-level object %s", obj.Name())
	return Val{}
}

func (e *Env) fromDef(nd nameDef) Val {
	g := e.g
	var v Val
	if ov, ok := e.over[nd.val]; ok {
		v = ov
	} else {
		v = e.f.val(nd.val)
	}
	if nd.isAddr {
		pt := nd.val.Type().Underlying().(*types.Pointer)
		return g.loadAt(g.placeOf(v), pt.Elem(), e.loadHeap())
	}
	return v
}

func (e *Env) unary(x *EUnary) Val {
	g := e.g
	if x.Op == "&" {
		// address of a field: &p.f
		sel, ok := x.X.(*ESel)
		if !ok {
			e.fail("& is only supported on field selections: %s", exprString(x))
		}
		base := e.tr(sel.X)
		pt, ok := base.GT.Underlying().(*types.Pointer)
		if !ok {
			e.fail("&x.f needs a pointer-typed x: %s", exprString(x))
		}
		st, ok := pt.Elem().Underlying().(*types.Struct)
		if !ok {
			e.fail("&x.f on a non-struct")
		}
		for i := 0; i < st.NumFields(); i++ {
			if st.Field(i).Name() == sel.Sel {
				pl := g.fieldPlaceFrom(base.Place, base.S, pt.Elem(), i)
				return Val{S: pl.Ptr, Sort: "Ptr", GT: types.NewPointer(st.Field(i).Type()), Place: pl}
			}
		}
		e.fail("no field %s", sel.Sel)
	}
	v := e.tr(x.X)
	switch x.Op {
	case "!":
		return g.boolVal(not(v.S))
	case "+":
		return v
	case "-":
		if v.Untyped {
			n := new(big.Int).Neg(v.Big)
			return Val{S: n.String(), Sort: "Untyped", Untyped: true, Big: n}
		}
		if strings.HasPrefix(v.Sort, "Float") {
			return Val{S: app("fp.neg", v.S), Sort: v.Sort, GT: v.GT}
		}
		if strings.HasPrefix(v.Sort, "(_ BitVec") {
			return Val{S: app("bvneg", v.S), Sort: v.Sort, GT: v.GT}
		}
		return Val{S: app("-", v.S), Sort: v.Sort, GT: v.GT}
	case "^":
		if v.Untyped {
			n := new(big.Int).Not(v.Big)
			return Val{S: n.String(), Sort: "Untyped", Untyped: true, Big: n}
		}
		if strings.HasPrefix(v.Sort, "(_ BitVec") {
			return Val{S: app("bvnot", v.S), Sort: v.Sort, GT: v.GT}
		}
		return Val{S: app("-", app("-", v.S), "1"), Sort: v.Sort, GT: v.GT}
	case "*":
		pt, ok := v.GT.Underlying().(*types.Pointer)
		if !ok {
			e.fail("dereference of non-pointer in %s", exprString(x))
		}
		return g.loadAt(g.placeOf(v), pt.Elem(), e.loadHeap())
	}
	e.fail("unsupported unary operator %s", x.Op)
	return Val{}
}

var tokOf = map[string]token.Token{"+": token.ADD, "-": token.SUB, "*": token.MUL, "/": token.QUO, "%": token.REM, "&": token.AND,
	"|": token.OR, "^": token.XOR, "&^": token.AND_NOT, "<<": token.SHL, ">>": token.SHR, "==": token.EQL, "!=": token.NEQ,
	"<": token.LSS, "<=": token.LEQ, ">": token.GTR, ">=": token.GEQ}

func (e *Env) binary(x *EBinary) Val {
	g := e.g
	switch x.Op {
	case "==>":
		return g.boolVal(implies(e.trBool(x.X), e.trBool(x.Y)))
	case "<==>":
		return g.boolVal(eq(e.trBool(x.X), e.trBool(x.Y)))
	case "&&":
		return g.boolVal(and(e.trBool(x.X), e.trBool(x.Y)))
	case "||":
		return g.boolVal(or(e.trBool(x.X), e.trBool(x.Y)))
	}
	a := e.tr(x.X)
	b := e.tr(x.Y)
	op := tokOf[x.Op]
	if a.Untyped && b.Untyped {
		return e.foldConst(x.Op, a, b)
	}
	if op == token.SHL || op == token.SHR {
		a = e.concretize(a, tInt)
	} else {
		a, b = e.unify(a, b)
	}
	// pure spec sorts (no Go type): mathematical ints or raw bit-vectors
	if a.GT == nil || (b.GT == nil && !b.Untyped) {
		return e.rawBinary(x.Op, a, b)
	}
	fr := e.f
	if fr == nil {
		fr = &Frame{g: g}
	}
	var rt types.Type = a.GT
	switch op {
	case token.EQL, token.NEQ, token.LSS, token.LEQ, token.GTR, token.GEQ:
		rt = tBool
	}
	if _, isStruct := a.GT.Underlying().(*types.Struct); isStruct && (op == token.EQL || op == token.NEQ) {
		r := eq(a.S, b.S)
		if op == token.NEQ {
			r = not(r)
		}
		return g.boolVal(r)
	}
	saveTop := fr.top
	fr.top = false // no obligations from spec arithmetic
	r := fr.binop(nil, op, a, b, rt)
	fr.top = saveTop
	return r
}

func (e *Env) foldConst(op string, a, b Val) Val {
	x, y := a.Big, b.Big
	r := new(big.Int)
	mk := func(v *big.Int) Val { return Val{S: v.String(), Sort: "Untyped", Untyped: true, Big: v} }
	cmp := x.Cmp(y)
	switch op {
	case "+":
		return mk(r.Add(x, y))
	case "-":
		return mk(r.Sub(x, y))
	case "*":
		return mk(r.Mul(x, y))
	case "/":
		return mk(r.Quo(x, y))
	case "%":
		return mk(r.Rem(x, y))
	case "<<":
		return mk(r.Lsh(x, uint(y.Int64())))
	case ">>":
		return mk(r.Rsh(x, uint(y.Int64())))
	case "&":
		return mk(r.And(x, y))
	case "|":
		return mk(r.Or(x, y))
	case "^":
		return mk(r.Xor(x, y))
	case "&^":
		return mk(r.AndNot(x, y))
	case "==":
		return e.g.boolVal(strconv.FormatBool(cmp == 0))
	case "!=":
		return e.g.boolVal(strconv.FormatBool(cmp != 0))
	case "<":
		return e.g.boolVal(strconv.FormatBool(cmp < 0))
	case "<=":
		return e.g.boolVal(strconv.FormatBool(cmp <= 0))
	case ">":
		return e.g.boolVal(strconv.FormatBool(cmp > 0))
	case ">=":
		return e.g.boolVal(strconv.FormatBool(cmp >= 0))
	}
	e.fail("cannot fold constant operator %s", op)
	return Val{}
}

func (e *Env) rawBinary(op string, a, b Val) Val {
	g := e.g
	if b.Untyped {
		b = e.concretizeSort(b, a)
	}
	if a.Untyped {
		a = e.concretizeSort(a, b)
	}
	if a.Sort != b.Sort && !(op == "<<" || op == ">>") {
		e.fail("operands of %s have different sorts: %s vs %s", op, a.Sort, b.Sort)
	}
	if a.Sort == "Int" {
		switch op {
		case "+", "-", "*":
			return Val{S: app(op, a.S, b.S), Sort: "Int"}
		case "/":
			return Val{S: app("go.div", a.S, b.S), Sort: "Int"}
		case "%":
			return Val{S: app("go.rem", a.S, b.S), Sort: "Int"}
		case "==":
			return g.boolVal(eq(a.S, b.S))
		case "!=":
			return g.boolVal(not(eq(a.S, b.S)))
		case "<", "<=", ">", ">=":
			return g.boolVal(app(op, a.S, b.S))
		case "<<":
			if b.Big != nil {
				return Val{S: app("*", a.S, pow2(int(b.Big.Int64())).String()), Sort: "Int"}
			}
		case ">>":
			if b.Big != nil {
				return Val{S: app("div", a.S, pow2(int(b.Big.Int64())).String()), Sort: "Int"}
			}
		case "&":
			if b.Big != nil && b.Big.Sign() >= 0 {
				return Val{S: intAndConst(a.S, b.Big), Sort: "Int"}
			}
		}
	}
	if strings.HasPrefix(a.Sort, "(_ BitVec") {
		m := map[string]string{"+": "bvadd", "-": "bvsub", "*": "bvmul", "&": "bvand", "|": "bvor", "^": "bvxor", "<<": "bvshl", ">>": "bvlshr",
			"/": "bvudiv", "%": "bvurem"}
		if f, ok := m[op]; ok {
			return Val{S: app(f, a.S, b.S), Sort: a.Sort}
		}
		c := map[string]string{"<": "bvult", "<=": "bvule", ">": "bvugt", ">=": "bvuge"}
		if f, ok := c[op]; ok {
			return g.boolVal(app(f, a.S, b.S))
		}
	}
	switch op {
	case "==":
		if a.Sort == "Float64" || a.Sort == "Float32" {
			return g.boolVal(app("fp.eq", a.S, b.S))
		}
		return g.boolVal(eq(a.S, b.S))
	case "!=":
		if a.Sort == "Float64" || a.Sort == "Float32" {
			return g.boolVal(not(app("fp.eq", a.S, b.S)))
		}
		return g.boolVal(not(eq(a.S, b.S)))
	}
	e.fail("unsupported operator %s on sort %s", op, a.Sort)
	return Val{}
}

func (e *Env) quant(x *EQuant) Val {
	g := e.g
	c := e.child()
	c.inQuant++
	var decl []string
	var guards []string
	for _, v := range x.Vars {
		var qv Val
		if s, gt, ok := e.specSort(v.Type); ok {
			qv = Val{S: "q!" + v.Name, Sort: s, GT: gt}
			if gt != nil {
				qv.GT = nil
			}
		} else {
			t := e.resolveType(v.Type)
			qv = Val{S: "q!" + v.Name, Sort: g.sortOf(t), GT: t}
			if bits, _, ok := intInfo(t); ok && bits < 64 && !g.BV {
				guards = append(guards, g.typeInv(qv, ""))
			}
		}
		g.qseq++
		qv.S = fmt.Sprintf("q!%s!%d", v.Name, g.qseq)
		c.bind[v.Name] = qv
		decl = append(decl, fmt.Sprintf("(%s %s)", qv.S, qv.Sort))
		if len(guards) > 0 {
			guards[len(guards)-1] = strings.ReplaceAll(guards[len(guards)-1], "q!"+v.Name, qv.S)
		}
	}
	body := c.trBool(x.Body)
	q := "exists"
	if x.Forall {
		q = "forall"
		body = implies(and(guards...), body)
	} else {
		body = and(append(guards, body)...)
	}
	return g.boolVal(fmt.Sprintf("(%s (%s) %s)", q, strings.Join(decl, " "), body))
}

// tryPlace resolves an expression to a memory place (without loading the whole enclosing struct), when it
// denotes one: a field of a place, a field behind a pointer, or an element of a slice of structs.
func (e *Env) tryPlace(x Expr) (*Place, types.Type, bool) {
	g := e.g
	switch x := x.(type) {
	case *EIndex:
		// element of a slice of structs
		if _, isIdent := x.X.(*EIdent); !isIdent {
			if _, isSel := x.X.(*ESel); !isSel {
				return nil, nil, false
			}
		}
		var v Val
		if pl, t, ok := e.tryPlace(x.X); ok {
			v = g.loadAt(pl, t, e.loadHeap())
		} else {
			if id, isIdent := x.X.(*EIdent); isIdent {
				if _, bound := e.bind[id.Name]; !bound && !e.isLocal(id.Name) && id.Name != "result" {
					return nil, nil, false
				}
			}
			v = e.tr(x.X)
		}
		if v.GT == nil {
			return nil, nil, false
		}
		st, ok := v.GT.Underlying().(*types.Slice)
		if !ok || isLeafElem(st.Elem()) {
			return nil, nil, false
		}
		i := e.concretize(e.tr(x.I), tInt)
		arr := app("s_arr", v.S)
		ptr := fmt.Sprintf("(mk-ptr (obj %s) (elem (path %s) %s))", arr, arr, app("sl.idx", v.S, g.toIdx(i)))
		return &Place{Kind: 4, Ptr: ptr}, st.Elem(), true
	case *ESel:
		if id, ok := x.X.(*EIdent); ok {
			if _, bound := e.bind[id.Name]; !bound && !e.isLocal(id.Name) && e.findPkg(id.Name) != nil {
				return nil, nil, false // package-qualified name
			}
		}
		if base, bt, ok := e.tryPlace(x.X); ok {
			if st, isStruct := bt.Underlying().(*types.Struct); isStruct {
				_, path := findField(bt, st, x.Sel)
				if path == nil {
					return nil, nil, false
				}
				cur, curT := base, bt
				for _, i := range path {
					cur = g.subPlace(cur, curT, i)
					curT = curT.Underlying().(*types.Struct).Field(i).Type()
				}
				return cur, curT, true
			}
			if pt, isPtr := bt.Underlying().(*types.Pointer); isPtr {
				// a pointer stored at a place: load the pointer, then select behind it
				pv := g.loadAt(base, bt, e.loadHeap())
				return e.placeBehind(pv, pt, x.Sel)
			}
			return nil, nil, false
		}
		// a pointer-valued expression
		if _, isCall := x.X.(*ECall); isCall {
			v := e.tr(x.X)
			if v.GT != nil {
				if pt, isPtr := v.GT.Underlying().(*types.Pointer); isPtr {
					return e.placeBehind(v, pt, x.Sel)
				}
			}
		}
		if id, isIdent := x.X.(*EIdent); isIdent {
			if _, bound := e.bind[id.Name]; bound || e.isLocal(id.Name) || id.Name == "result" {
				v := e.tr(x.X)
				if v.GT != nil {
					if pt, isPtr := v.GT.Underlying().(*types.Pointer); isPtr {
						return e.placeBehind(v, pt, x.Sel)
					}
				}
			}
		}
	}
	return nil, nil, false
}

func (e *Env) placeBehind(v Val, pt *types.Pointer, selName string) (*Place, types.Type, bool) {
	g := e.g
	st, ok := pt.Elem().Underlying().(*types.Struct)
	if !ok {
		return nil, nil, false
	}
	_, path := findField(pt.Elem(), st, selName)
	if path == nil {
		return nil, nil, false
	}
	var cur *Place = v.Place
	curT := pt.Elem()
	curPtr := v.S
	for _, i := range path {
		cur = g.fieldPlaceFrom(cur, curPtr, curT, i)
		curPtr = cur.Ptr
		curT = curT.Underlying().(*types.Struct).Field(i).Type()
	}
	return cur, curT, true
}

func (e *Env) sel(x *ESel) Val {
	g := e.g
	if pl, t, ok := e.tryPlace(x); ok {
		return g.loadAt(pl, t, e.loadHeap())
	}
	// package-qualified constant or pseudo-package
	if id, ok := x.X.(*EIdent); ok {
		if _, bound := e.bind[id.Name]; !bound && !e.isLocal(id.Name) {
			if p := e.findPkg(id.Name); p != nil {
				if obj := p.Scope().Lookup(x.Sel); obj != nil {
					return e.pkgObject(obj)
				}
				e.fail("package %s has no member %s", id.Name, x.Sel)
			}
		}
	}
	v := e.tr(x.X)
	if v.GT == nil {
		e.fail("selector on a spec value without Go type: %s", exprString(x))
	}
	t := v.GT
	if pt, ok := t.Underlying().(*types.Pointer); ok {
		st, ok := pt.Elem().Underlying().(*types.Struct)
		if !ok {
			e.fail("selector on pointer to non-struct: %s", exprString(x))
		}
		idx, path := findField(pt.Elem(), st, x.Sel)
		if idx < 0 {
			e.fail("type %s has no field %s", pt.Elem(), x.Sel)
		}
		cur := v
		curT := pt.Elem()
		var curPl *Place = v.Place
		for k, i := range path {
			sst := curT.Underlying().(*types.Struct)
			pl := g.fieldPlaceFrom(curPl, cur.S, curT, i)
			ft := sst.Field(i).Type()
			if k == len(path)-1 {
				return g.loadAt(pl, ft, e.loadHeap())
			}
			cur = Val{S: pl.Ptr, Sort: "Ptr", GT: types.NewPointer(ft)}
			curPl = pl
			curT = ft
		}
	}
	if st, ok := t.Underlying().(*types.Struct); ok {
		_, path := findField(t, st, x.Sel)
		if path == nil {
			e.fail("type %s has no field %s", t, x.Sel)
		}
		cur := v
		for _, i := range path {
			cur = g.structField(cur, i)
		}
		return cur
	}
	e.fail("selector %s on non-struct type %s", x.Sel, t)
	return Val{}
}

// findField finds a (possibly promoted through embedding) field; returns the index path.
func findField(named types.Type, st *types.Struct, name string) (int, []int) {
	for i := 0; i < st.NumFields(); i++ {
		if st.Field(i).Name() == name {
			return i, []int{i}
		}
	}
	for i := 0; i < st.NumFields(); i++ {
		if st.Field(i).Embedded() {
			if sub, ok := st.Field(i).Type().Underlying().(*types.Struct); ok {
				if j, p := findField(st.Field(i).Type(), sub, name); j >= 0 {
					return i, append([]int{i}, p...)
				}
			}
		}
	}
	return -1, nil
}

func (e *Env) isLocal(name string) bool {
	if e.f == nil {
		return false
	}
	for _, p := range e.f.fn.Params {
		if p.Name() == name {
			return true
		}
	}
	if _, ok := e.f.names[name]; ok {
		return true
	}
	return false
}

func (e *Env) findPkg(name string) *types.Package {
	if e.pkg != nil {
		for _, imp := range e.pkg.Imports() {
			if imp.Name() == name {
				return imp
			}
		}
		if e.pkg.Name() == name {
			return e.pkg
		}
	}
	for path, sp := range e.g.P.Pkgs {
		if sp.Pkg.Name() == name && strings.HasPrefix(path, modPath) {
			return sp.Pkg
		}
	}
	return nil
}

func (e *Env) index(x *EIndex) Val {
	g := e.g
	v := e.tr(x.X)
	i := e.tr(x.I)
	if v.GT == nil {
		// raw array sort
		i = e.concretize(i, tInt)
		var es string
		if strings.HasPrefix(v.Sort, "(Array ") {
			es = arrayElemSort(v.Sort)
		}
		return Val{S: app("select", v.S, g.toIdx(i)), Sort: es, GT: v.ElemGT}
	}
	switch u := v.GT.Underlying().(type) {
	case *types.Slice:
		i = e.concretize(i, tInt)
		idx := app("sl.idx", v.S, g.toIdx(i))
		arr := app("s_arr", v.S)
		if isLeafElem(u.Elem()) {
			key := "E|" + typeKey(u.Elem())
			g.ensureKey(key, g.sortOf(u.Elem()))
			return Val{S: app("select", app("select", e.heapGet(key), arr), idx), Sort: g.sortOf(u.Elem()), GT: u.Elem()}
		}
		ptr := fmt.Sprintf("(mk-ptr (obj %s) (elem (path %s) %s))", arr, arr, idx)
		return g.loadAt(&Place{Kind: 4, Ptr: ptr}, u.Elem(), e.loadHeap())
	case *types.Basic:
		i = e.concretize(i, tInt)
		return Val{S: app("gstr.at", v.S, g.toIdx(i)), Sort: g.sortOf(tByte), GT: tByte}
	case *types.Array:
		i = e.concretize(i, tInt)
		return Val{S: app("select", v.S, g.toIdx(i)), Sort: g.sortOf(u.Elem()), GT: u.Elem()}
	case *types.Map:
		i = e.concretize(i, u.Key())
		dk, vk := g.mapKeys(u)
		present := and(not(eq(v.S, "nilptr")), app("select", app("select", e.heapGet(dk), v.S), i.S))
		return Val{S: ite(present, app("select", app("select", e.heapGet(vk), v.S), i.S), g.zero(u.Elem()).S), Sort: g.sortOf(u.Elem()), GT: u.Elem()}
	case *types.Pointer:
		if at, ok := u.Elem().Underlying().(*types.Array); ok && isLeafElem(at.Elem()) {
			i = e.concretize(i, tInt)
			key := "E|" + typeKey(at.Elem())
			g.ensureKey(key, g.sortOf(at.Elem()))
			return Val{S: app("select", app("select", e.heapGet(key), v.S), g.toIdx(i)), Sort: g.sortOf(at.Elem()), GT: at.Elem()}
		}
	}
	e.fail("unsupported index expression %s", exprString(x))
	return Val{}
}

func arrayElemSort(s string) string {
	// "(Array IDX ELEM)"
	inner := s[len("(Array ") : len(s)-1]
	d := 0
	for i := 0; i < len(inner); i++ {
		switch inner[i] {
		case '(':
			d++
		case ')':
			d--
		case ' ':
			if d == 0 {
				return inner[i+1:]
			}
		}
	}
	return ""
}
