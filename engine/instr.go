package main

import (
	"fmt"
	"go/constant"
	"go/token"
	"go/types"
	"math/big"
	"strconv"
	"strings"

	"golang.org/x/tools/go/ssa"
)

var bigZero = big.NewInt(0)

func (f *Frame) safety() bool { return f.top && f.g.FC != nil && f.g.FC.Safety }

func (f *Frame) safetyOblig(kind string, in ssa.Instruction, goal string) {
	if !f.safety() {
		return
	}
	g := f.g
	g.safetyCount[kind]++
	g.addOblig(&Oblig{Name: f.obName(fmt.Sprintf("%s@%s", kind, f.sitePos(in)), nil, g.safetyCount[kind]), Kind: kind,
		Goal: implies(f.curReach, goal), Pos: f.pos(in.Pos())})
}

// sitePos gives a position-free-ish label for an instruction: block index and instruction ordinal of its kind.
func (f *Frame) sitePos(in ssa.Instruction) string {
	return fmt.Sprintf("b%d", in.Block().Index)
}

func (f *Frame) instr(in ssa.Instruction) {
	g := f.g
	switch in := in.(type) {
	case *ssa.DebugRef:
	case *ssa.Phi:
		if _, done := f.vals[in]; done {
			return // loop header phi
		}
		b := in.Block()
		n := g.declConst(f.symName(in), g.sortOf(in.Type()))
		v := Val{S: n, Sort: g.sortOf(in.Type()), GT: in.Type()}
		for i, p := range b.Preds {
			if f.reach[p] == "" {
				continue
			}
			g.assumeDef(n, implies(f.edgeCond(p, b), eq(n, f.val(in.Edges[i]).S)))
		}
		f.vals[in] = v
	case *ssa.Alloc:
		et := in.Type().Underlying().(*types.Pointer).Elem()
		if privateAlloc(in) {
			v := f.newObjectNoInit(et, in.Comment)
			v.Place = &Place{Kind: 5, Ptr: v.S, Priv: f.privKey(in)}
			f.vals[in] = v
			f.storeAt(v.Place, g.zero(et), et)
			return
		}
		f.define(in, f.newObject(et, in.Comment))
	case *ssa.BinOp:
		f.define(in, f.binop(in, in.Op, f.val(in.X), f.val(in.Y), in.Type()))
	case *ssa.UnOp:
		f.unop(in)
	case *ssa.Convert:
		f.define(in, g.convert(f.val(in.X), in.Type(), f))
	case *ssa.ChangeType:
		x := f.val(in.X)
		x.GT = in.Type()
		f.define(in, x)
	case *ssa.ChangeInterface:
		x := f.val(in.X)
		x.GT = in.Type()
		f.define(in, x)
	case *ssa.MakeInterface:
		f.define(in, f.makeInterface(f.val(in.X), in.Type()))
	case *ssa.TypeAssert:
		f.typeAssert(in)
	case *ssa.Extract:
		t := f.val(in.Tuple)
		if in.Index < len(t.Tuple) {
			f.define(in, t.Tuple[in.Index])
		} else {
			f.define(in, g.havocVal("extract", in.Type()))
		}
	case *ssa.Field:
		f.define(in, g.structField(f.val(in.X), in.Field))
	case *ssa.FieldAddr:
		x := f.val(in.X)
		f.safetyOblig("nil-deref", in, not(eq(x.S, "nilptr")))
		pt := in.X.Type().Underlying().(*types.Pointer)
		ptr := fmt.Sprintf("(mk-ptr (obj %s) (fld (path %s) %d))", x.S, x.S, in.Field)
		v := Val{S: ptr, Sort: "Ptr", GT: in.Type()}
		v = f.define(in, v)
		if x.Place != nil && x.Place.Kind == 5 {
			v.Place = &Place{Kind: 5, Ptr: v.S, Priv: fmt.Sprintf("%s.%d", x.Place.Priv, in.Field)}
		} else {
			v.Place = g.fieldPlaceFrom(x.Place, x.S, pt.Elem(), in.Field)
			v.Place.Ptr = v.S
		}
		f.vals[in] = v
	case *ssa.IndexAddr:
		f.indexAddr(in)
	case *ssa.Index:
		x := f.val(in.X)
		i := g.toIdx(f.val(in.Index))
		if isString(in.X.Type()) {
			f.safetyOblig("bounds", in, and(g.icmp("<=", g.idxLit(0), i, true), g.icmp("<", i, app("gstr.len", x.S), true)))
			f.define(in, Val{S: app("gstr.at", x.S, i), Sort: g.sortOf(in.Type()), GT: in.Type()})
		} else if at, ok := in.X.Type().Underlying().(*types.Array); ok {
			f.safetyOblig("bounds", in, and(g.icmp("<=", g.idxLit(0), i, true), g.icmp("<", i, g.idxLit(at.Len()), true)))
			f.define(in, Val{S: app("select", x.S, i), Sort: g.sortOf(in.Type()), GT: in.Type()})
		} else {
			f.define(in, g.havocVal("index", in.Type()))
			g.note("unsupported Index on " + in.X.Type().String())
		}
	case *ssa.Lookup:
		f.lookup(in)
	case *ssa.Slice:
		f.slice(in)
	case *ssa.Store:
		f.siteStoreObligs(in)
		a := f.val(in.Addr)
		f.safetyOblig("nil-deref", in, not(eq(a.S, "nilptr")))
		f.store(a, f.val(in.Val), in.Addr.Type().Underlying().(*types.Pointer).Elem())
	case *ssa.MakeSlice:
		f.makeSlice(in)
	case *ssa.MakeMap:
		p := f.newObjID()
		mt := in.Type().Underlying().(*types.Map)
		dk, vk := g.mapKeys(mt)
		kS := g.sortOf(mt.Key())
		f.cur.set(dk, app("store", f.cur.get(dk), p, fmt.Sprintf("((as const (Array %s Bool)) false)", kS)))
		_ = vk
		f.define(in, Val{S: p, Sort: "Ptr", GT: in.Type()})
	case *ssa.MapUpdate:
		m := f.val(in.Map)
		mt := in.Map.Type().Underlying().(*types.Map)
		dk, vk := g.mapKeys(mt)
		k := f.val(in.Key)
		v := f.val(in.Value)
		f.safetyOblig("nil-map-write", in, not(eq(m.S, "nilptr")))
		// assignment to an entry of a nil map panics: execution continues only with a non-nil map
		g.assume(implies(f.curReach, not(eq(m.S, "nilptr"))))
		d := f.cur.get(dk)
		vv := f.cur.get(vk)
		f.cur.set(dk, app("store", d, m.S, app("store", app("select", d, m.S), k.S, "true")))
		f.cur.set(vk, app("store", vv, m.S, app("store", app("select", vv, m.S), k.S, v.S)))
	case *ssa.MakeClosure:
		p := f.newObjID()
		v := f.define(in, Val{S: p, Sort: "Ptr", GT: in.Type()})
		_ = v
		f.closures[in] = true
	case *ssa.MakeChan:
		f.define(in, Val{S: f.newObjID(), Sort: "Ptr", GT: in.Type()})
	case *ssa.Call:
		f.siteObligs(in)
		f.siteAppendObligs(in)
		r := f.call(in.Common(), in)
		if in.Type() != nil {
			if tup, ok := in.Type().(*types.Tuple); ok && tup.Len() == 0 {
				return
			}
			f.define(in, r)
		}
	case *ssa.Defer:
		f.defers = append(f.defers, in)
	case *ssa.RunDefers:
		for i := len(f.defers) - 1; i >= 0; i-- {
			d := f.defers[i]
			if d.Block() == in.Block() || d.Block().Dominates(in.Block()) || true {
				f.call(d.Common(), d)
			}
		}
	case *ssa.Go:
		// the spawned goroutine runs concurrently; interference is not modelled (assumption)
		g.Assumptions["goroutine interference not modelled"] = true
	case *ssa.Send:
	case *ssa.Select:
		f.define(in, g.havocVal("select", in.Type()))
	case *ssa.Range:
		f.define(in, Val{S: f.newObjID(), Sort: "Ptr", GT: in.Type()})
		f.ranges[in] = f.cur
	case *ssa.Next:
		f.next(in)
	case *ssa.If, *ssa.Jump:
	case *ssa.Return:
		var rv []Val
		for _, r := range in.Results {
			rv = append(rv, f.val(r))
		}
		f.retReach = append(f.retReach, f.curReach)
		f.retVals = append(f.retVals, rv)
		f.retHeaps = append(f.retHeaps, f.cur)
	case *ssa.Panic:
		allowed := false
		if mi, ok := in.X.(*ssa.MakeInterface); ok && f.g.FC != nil {
			if n, ok := mi.X.Type().(*types.Named); ok && f.g.FC.Opts["panics-allowed"] == n.Obj().Name() {
				allowed = true
			}
		}
		if !allowed {
			f.safetyOblig("panic-unreachable", in, "false")
		}
	case *ssa.SliceToArrayPointer, *ssa.MultiConvert:
		f.define(in.(ssa.Value), g.havocVal("unsupported", in.(ssa.Value).Type()))
		g.note(fmt.Sprintf("unsupported instruction %T", in))
	default:
		if v, ok := in.(ssa.Value); ok {
			f.define(v, g.havocVal("unsupported", v.Type()))
		}
		g.note(fmt.Sprintf("unsupported instruction %T", in))
	}
}

// ---------------------------------------------------------------------------------------
// Objects and memory

func (f *Frame) newObjID() string {
	g := f.g
	a := f.alloc()
	n := g.freshConst("alloc", "Int")
	g.assumeDef(n, eq(n, app("+", a, "1")))
	f.cur.set("$alloc", n)
	return fmt.Sprintf("(mk-ptr %s root)", n)
}

func (f *Frame) privKey(a *ssa.Alloc) string {
	return "L|" + f.sfx + "|" + a.Name()
}

// privateAlloc: a local whose address is only used for field selection, loads and stores in its
// own function. Such cells get private heap keys and never interfere with the shared heap maps.
func privateAlloc(a *ssa.Alloc) bool {
	et := a.Type().Underlying().(*types.Pointer).Elem()
	if containsArray(et) {
		return false
	}
	var ok func(v ssa.Value) bool
	ok = func(v ssa.Value) bool {
		for _, r := range *v.Referrers() {
			switch r := r.(type) {
			case *ssa.DebugRef:
			case *ssa.UnOp:
				if r.Op != token.MUL {
					return false
				}
			case *ssa.Store:
				if r.Val == v {
					return false
				}
			case *ssa.FieldAddr:
				if !ok(r) {
					return false
				}
			default:
				return false
			}
		}
		return true
	}
	return ok(a)
}

func containsArray(t types.Type) bool {
	switch u := t.Underlying().(type) {
	case *types.Array:
		return true
	case *types.Struct:
		for i := 0; i < u.NumFields(); i++ {
			if containsArray(u.Field(i).Type()) {
				return true
			}
		}
	}
	return false
}

// privRoot walks a FieldAddr chain back to a private Alloc.
func privRoot(addr ssa.Value) (*ssa.Alloc, string, bool) {
	path := ""
	for {
		switch a := addr.(type) {
		case *ssa.FieldAddr:
			path = fmt.Sprintf(".%d", a.Field) + path
			addr = a.X
		case *ssa.Alloc:
			if privateAlloc(a) {
				return a, path, true
			}
			return nil, "", false
		default:
			return nil, "", false
		}
	}
}

func (f *Frame) newObjectNoInit(t types.Type, comment string) Val {
	g := f.g
	p := f.newObjID()
	n := g.freshConst("obj_"+comment, "Ptr")
	g.assumeDef(n, eq(n, p))
	return Val{S: n, Sort: "Ptr", GT: types.NewPointer(t)}
}

func (f *Frame) newObject(t types.Type, comment string) Val {
	g := f.g
	p := f.newObjID()
	n := g.freshConst("obj_"+comment, "Ptr")
	g.assumeDef(n, eq(n, p))
	v := Val{S: n, Sort: "Ptr", GT: types.NewPointer(t), Place: &Place{Kind: 3, Ptr: n}}
	f.storeAt(v.Place, g.zero(t), t)
	return v
}

func (g *Gen) subPlace(parent *Place, named types.Type, idx int) *Place {
	if parent.Kind == 5 {
		return &Place{Kind: 5, Ptr: fmt.Sprintf("(mk-ptr (obj %s) (fld (path %s) %d))", parent.Ptr, parent.Ptr, idx), Priv: fmt.Sprintf("%s.%d", parent.Priv, idx)}
	}
	return g.fieldPlaceFrom(parent, parent.Ptr, named, idx)
}

// fieldPlaceFrom builds the place of field idx of the struct (of type named) at pointer base. If the
// struct is itself a struct-valued field whose address never escapes (parent is such a field place),
// the heap map is keyed by the enclosing struct type and the index path, and indexed by the enclosing
// struct's pointer; otherwise by (named, idx) and base.
func (g *Gen) fieldPlaceFrom(parent *Place, base string, named types.Type, idx int) *Place {
	pl := g.fieldPlace(base, named, idx)
	if parent != nil && parent.Kind == 1 && parent.Root != nil && !g.P.FieldEscapes(parent.Named, parent.Idx) {
		if _, isStruct := parent.Struct.Field(parent.Idx).Type().Underlying().(*types.Struct); isStruct {
			pl.Root, pl.RootPtr, pl.Path = parent.Root, parent.RootPtr, fmt.Sprintf("%s.%d", parent.Path, idx)
		}
	}
	return pl
}

func fieldHeapKey(root types.Type, path string) string {
	return "F|" + typeKey(root) + "|" + path
}

func (g *Gen) fieldPlace(base string, named types.Type, idx int) *Place {
	return &Place{Root: named, RootPtr: base, Path: fmt.Sprint(idx), Kind: 1, Ptr: fmt.Sprintf("(mk-ptr (obj %s) (fld (path %s) %d))", base, base, idx), Base: base, Named: named,
		Struct: named.Underlying().(*types.Struct), Idx: idx}
}

func (g *Gen) placeOf(v Val) *Place {
	if v.Place != nil {
		return v.Place
	}
	return &Place{Kind: 0, Ptr: v.S}
}

func (g *Gen) mapKeys(mt *types.Map) (string, string) {
	k := mapKey(mt)
	g.ensureKey(k+"!d", fmt.Sprintf("(Array %s Bool)", g.sortOf(mt.Key())))
	g.ensureKey(k+"!v", fmt.Sprintf("(Array %s %s)", g.sortOf(mt.Key()), g.sortOf(mt.Elem())))
	return k + "!d", k + "!v"
}

// loadAt reads a value of type t at place pl from heap h.
func (g *Gen) loadAt(pl *Place, t types.Type, h *HeapState) Val {
	switch u := t.Underlying().(type) {
	case *types.Struct:
		var fs []Val
		for i := 0; i < u.NumFields(); i++ {
			fs = append(fs, g.loadAt(g.subPlace(pl, t, i), u.Field(i).Type(), h))
		}
		return g.mkStruct(t, fs)
	case *types.Array:
		if _, isStruct := u.Elem().Underlying().(*types.Struct); isStruct {
			g.note("load of array of structs by value is not modelled")
			return g.havocVal("arr", t)
		}
		if _, isArr := u.Elem().Underlying().(*types.Array); isArr {
			g.note("load of nested array by value is not modelled")
			return g.havocVal("arr", t)
		}
		key := "E|" + typeKey(u.Elem())
		g.ensureKey(key, g.sortOf(u.Elem()))
		return Val{S: app("select", h.get(key), pl.Ptr), Sort: g.sortOf(t), GT: t}
	}
	s := g.sortOf(t)
	switch pl.Kind {
	case 5:
		g.ensureKey(pl.Priv, s)
		return Val{S: h.get(pl.Priv), Sort: s, GT: t}
	case 1:
		if _, isArr := pl.Struct.Field(pl.Idx).Type().Underlying().(*types.Array); !isArr && !g.P.FieldEscapes(pl.Named, pl.Idx) {
			key := fieldHeapKey(pl.Root, pl.Path)
			g.ensureKey(key, s)
			return Val{S: app("select", h.get(key), pl.RootPtr), Sort: s, GT: t}
		}
		key := "H|" + typeKey(t)
		g.ensureKey(key, s)
		return Val{S: app("select", h.get(key), pl.Ptr), Sort: s, GT: t}
	case 2:
		key := "E|" + typeKey(t)
		g.ensureKey(key, s)
		return Val{S: app("select", app("select", h.get(key), pl.Base), pl.Index), Sort: s, GT: t}
	case 3:
		key := "H|" + typeKey(t)
		g.ensureKey(key, s)
		return Val{S: app("select", h.get(key), pl.Ptr), Sort: s, GT: t}
	}
	hk := "H|" + typeKey(t)
	ek := "E|" + typeKey(t)
	g.ensureKey(hk, s)
	g.ensureKey(ek, s)
	p := pl.Ptr
	isElem := fmt.Sprintf("((_ is elem) (path %s))", p)
	viaE := app("select", app("select", h.get(ek), fmt.Sprintf("(mk-ptr (obj %s) (elem_p (path %s)))", p, p)), fmt.Sprintf("(elem_i (path %s))", p))
	return Val{S: ite(isElem, viaE, app("select", h.get(hk), p)), Sort: s, GT: t}
}

func (f *Frame) load(addr Val, t types.Type) Val {
	g := f.g
	v := g.loadAt(g.placeOf(addr), t, f.cur)
	return v
}

func (f *Frame) store(addr Val, v Val, t types.Type) {
	f.storeAt(f.g.placeOf(addr), v, t)
}

func (f *Frame) storeAt(pl *Place, v Val, t types.Type) {
	g := f.g
	h := f.cur
	switch u := t.Underlying().(type) {
	case *types.Struct:
		for i := 0; i < u.NumFields(); i++ {
			fv := g.structField(Val{S: v.S, Sort: v.Sort, GT: t}, i)
			f.storeAt(g.subPlace(pl, t, i), fv, u.Field(i).Type())
		}
		return
	case *types.Array:
		if _, isStruct := u.Elem().Underlying().(*types.Struct); isStruct {
			g.note("store of array of structs by value is not modelled (havoc)")
			ms := &ModSet{Maps: map[string]bool{}}
			g.P.typeKeys(u.Elem(), true, ms)
			f.cur = h.havoc(ms, "arrstore")
			return
		}
		if _, isArr := u.Elem().Underlying().(*types.Array); isArr {
			g.note("store of nested array by value is not modelled (havoc)")
			ms := &ModSet{Maps: map[string]bool{}}
			g.P.typeKeys(u.Elem(), true, ms)
			f.cur = h.havoc(ms, "arrstore")
			return
		}
		key := "E|" + typeKey(u.Elem())
		g.ensureKey(key, g.sortOf(u.Elem()))
		h.set(key, app("store", h.get(key), pl.Ptr, v.S))
		return
	}
	s := g.sortOf(t)
	switch pl.Kind {
	case 5:
		g.ensureKey(pl.Priv, s)
		h.set(pl.Priv, v.S)
		return
	case 1:
		if _, isArr := pl.Struct.Field(pl.Idx).Type().Underlying().(*types.Array); !isArr && !g.P.FieldEscapes(pl.Named, pl.Idx) {
			key := fieldHeapKey(pl.Root, pl.Path)
			g.ensureKey(key, s)
			h.set(key, app("store", h.get(key), pl.RootPtr, v.S))
			return
		}
		key := "H|" + typeKey(t)
		g.ensureKey(key, s)
		h.set(key, app("store", h.get(key), pl.Ptr, v.S))
		return
	case 2:
		key := "E|" + typeKey(t)
		g.ensureKey(key, s)
		e := h.get(key)
		h.set(key, app("store", e, pl.Base, app("store", app("select", e, pl.Base), pl.Index, v.S)))
		return
	case 3:
		key := "H|" + typeKey(t)
		g.ensureKey(key, s)
		h.set(key, app("store", h.get(key), pl.Ptr, v.S))
		return
	}
	hk := "H|" + typeKey(t)
	ek := "E|" + typeKey(t)
	g.ensureKey(hk, s)
	g.ensureKey(ek, s)
	p := pl.Ptr
	isElem := fmt.Sprintf("((_ is elem) (path %s))", p)
	arrp := fmt.Sprintf("(mk-ptr (obj %s) (elem_p (path %s)))", p, p)
	idx := fmt.Sprintf("(elem_i (path %s))", p)
	e := h.get(ek)
	hh := h.get(hk)
	h.set(ek, ite(isElem, app("store", e, arrp, app("store", app("select", e, arrp), idx, v.S)), e))
	h.set(hk, ite(isElem, hh, app("store", hh, p, v.S)))
}

func isLeafElem(t types.Type) bool {
	switch t.Underlying().(type) {
	case *types.Struct, *types.Array:
		return false
	}
	return true
}

func (g *Gen) toIdx(v Val) string {
	if v.GT == nil {
		return v.S
	}
	bits, signed, ok := intInfo(v.GT)
	if !ok || !g.BV || bits == 64 {
		return v.S
	}
	if signed {
		return fmt.Sprintf("((_ sign_extend %d) %s)", 64-bits, v.S)
	}
	return fmt.Sprintf("((_ zero_extend %d) %s)", 64-bits, v.S)
}

func (f *Frame) indexAddr(in *ssa.IndexAddr) {
	g := f.g
	x := f.val(in.X)
	i := g.toIdx(f.val(in.Index))
	var arr, idx, length string
	var et types.Type
	switch u := in.X.Type().Underlying().(type) {
	case *types.Slice:
		arr = app("s_arr", x.S)
		idx = app("sl.idx", x.S, i)
		length = app("s_len", x.S)
		et = u.Elem()
	case *types.Pointer:
		at := u.Elem().Underlying().(*types.Array)
		arr = x.S
		idx = i
		length = g.idxLit(at.Len())
		et = at.Elem()
		f.safetyOblig("nil-deref", in, not(eq(x.S, "nilptr")))
	default:
		f.define(in, g.havocVal("indexaddr", in.Type()))
		g.note("unsupported IndexAddr base " + in.X.Type().String())
		return
	}
	f.safetyOblig("bounds", in, and(g.icmp("<=", g.idxLit(0), i, true), g.icmp("<", i, length, true)))
	ptr := fmt.Sprintf("(mk-ptr (obj %s) (elem (path %s) %s))", arr, arr, idx)
	v := f.define(in, Val{S: ptr, Sort: "Ptr", GT: in.Type()})
	if isLeafElem(et) {
		an := g.freshConst("arr", "Ptr")
		g.assumeDef(an, eq(an, arr))
		in2 := g.freshConst("idx", g.idxSort())
		g.assumeDef(in2, eq(in2, idx))
		v.Place = &Place{Kind: 2, Ptr: v.S, Base: an, Index: in2}
	} else {
		v.Place = &Place{Kind: 0, Ptr: v.S}
		if _, isStruct := et.Underlying().(*types.Struct); isStruct {
			v.Place = &Place{Kind: 4, Ptr: v.S}
		}
	}
	f.vals[in] = v
}

func (f *Frame) slice(in *ssa.Slice) {
	g := f.g
	x := f.val(in.X)
	var lo, hi, max string
	if in.Low != nil {
		lo = g.toIdx(f.val(in.Low))
	} else {
		lo = g.idxLit(0)
	}
	switch u := in.X.Type().Underlying().(type) {
	case *types.Basic: // string
		if in.High != nil {
			hi = g.toIdx(f.val(in.High))
		} else {
			hi = app("gstr.len", x.S)
		}
		f.safetyOblig("slice-bounds", in, and(g.icmp("<=", g.idxLit(0), lo, true), g.icmp("<=", lo, hi, true), g.icmp("<=", hi, app("gstr.len", x.S), true)))
		f.define(in, g.strSub(x.S, lo, hi))
	case *types.Slice:
		if in.High != nil {
			hi = g.toIdx(f.val(in.High))
		} else {
			hi = app("s_len", x.S)
		}
		capT := app("s_cap", x.S)
		if in.Max != nil {
			max = g.toIdx(f.val(in.Max))
			f.safetyOblig("slice-bounds", in, and(g.icmp("<=", g.idxLit(0), lo, true), g.icmp("<=", lo, hi, true), g.icmp("<=", hi, max, true), g.icmp("<=", max, capT, true)))
			capT = max
		} else {
			f.safetyOblig("slice-bounds", in, and(g.icmp("<=", g.idxLit(0), lo, true), g.icmp("<=", lo, hi, true), g.icmp("<=", hi, capT, true)))
		}
		f.define(in, Val{S: app("mk-slice", app("s_arr", x.S), g.iadd(app("s_off", x.S), lo), g.isub(hi, lo), g.isub(capT, lo)), Sort: "Slice", GT: in.Type()})
	case *types.Pointer:
		at := u.Elem().Underlying().(*types.Array)
		n := g.idxLit(at.Len())
		if in.High != nil {
			hi = g.toIdx(f.val(in.High))
		} else {
			hi = n
		}
		f.safetyOblig("slice-bounds", in, and(g.icmp("<=", g.idxLit(0), lo, true), g.icmp("<=", lo, hi, true), g.icmp("<=", hi, n, true)))
		f.define(in, Val{S: app("mk-slice", x.S, lo, g.isub(hi, lo), g.isub(n, lo)), Sort: "Slice", GT: in.Type()})
	default:
		f.define(in, g.havocVal("slice", in.Type()))
		g.note("unsupported Slice base " + in.X.Type().String())
	}
}

func (g *Gen) strSub(s, lo, hi string) Val {
	if !g.ufs["gstr.sub"] {
		g.ufs["gstr.sub"] = true
		ix := g.idxSort()
		g.decl(fmt.Sprintf("(declare-fun gstr.sub (Str %s %s) Str)", ix, ix))
		le := func(a, b string) string { return g.icmp("<=", a, b, true) }
		lt := func(a, b string) string { return g.icmp("<", a, b, true) }
		z := g.idxLit(0)
		g.decl(fmt.Sprintf("(assert (forall ((s Str) (a %s) (b %s)) (! (=> (and %s %s %s) (= (gstr.len (gstr.sub s a b)) %s)) :pattern ((gstr.sub s a b)))))",
			ix, ix, le(z, "a"), le("a", "b"), le("b", "(gstr.len s)"), g.isub("b", "a")))
		g.decl(fmt.Sprintf("(assert (forall ((s Str) (a %s) (b %s) (i %s)) (! (=> (and %s %s %s %s %s) (= (gstr.at (gstr.sub s a b) i) (gstr.at s %s))) :pattern ((gstr.at (gstr.sub s a b) i)))))",
			ix, ix, ix, le(z, "a"), le("a", "b"), le("b", "(gstr.len s)"), le(z, "i"), lt("i", g.isub("b", "a")), g.iadd("a", "i")))
		g.decl(fmt.Sprintf("(assert (forall ((s Str)) (! (= (gstr.sub s %s (gstr.len s)) s) :pattern ((gstr.sub s %s (gstr.len s))))))", z, z))
		// the same fact read from the whole string towards the substring (a byte of s that lies inside the window is
		// a byte of the substring): needed to carry "no '}' in tail" back to positions of the string
		g.decl(fmt.Sprintf("(assert (forall ((s Str) (a %s) (b %s) (j %s)) (! (=> (and %s %s %s %s) (= (gstr.at s j) (gstr.at (gstr.sub s a b) %s))) :pattern ((gstr.sub s a b) (gstr.at s j)))))",
			ix, ix, ix, le(z, "a"), le("a", "j"), lt("j", "b"), le("b", "(gstr.len s)"), g.isub("j", "a")))
	}
	return Val{S: app("gstr.sub", s, lo, hi), Sort: "Str", GT: tString}
}

func (g *Gen) strConcat(a, b string) Val {
	if !g.ufs["gstr.concat"] {
		g.ufs["gstr.concat"] = true
		ix := g.idxSort()
		g.decl("(declare-fun gstr.concat (Str Str) Str)")
		g.decl(fmt.Sprintf("(assert (forall ((a Str) (b Str)) (! (= (gstr.len (gstr.concat a b)) %s) :pattern ((gstr.concat a b)))))", g.iadd("(gstr.len a)", "(gstr.len b)")))
		g.decl(fmt.Sprintf("(assert (forall ((a Str) (b Str) (i %s)) (! (=> (and %s %s) (= (gstr.at (gstr.concat a b) i) (ite %s (gstr.at a i) (gstr.at b %s)))) :pattern ((gstr.at (gstr.concat a b) i)))))",
			ix, g.icmp("<=", g.idxLit(0), "i", true), g.icmp("<", "i", g.iadd("(gstr.len a)", "(gstr.len b)"), true), g.icmp("<", "i", "(gstr.len a)", true), g.isub("i", "(gstr.len a)")))
		g.decl("(assert (forall ((a Str)) (! (= (gstr.concat a gstr.empty) a) :pattern ((gstr.concat a gstr.empty)))))")
		g.decl("(assert (forall ((a Str)) (! (= (gstr.concat gstr.empty a) a) :pattern ((gstr.concat gstr.empty a)))))")
	}
	return Val{S: app("gstr.concat", a, b), Sort: "Str", GT: tString}
}

func (f *Frame) makeSlice(in *ssa.MakeSlice) {
	g := f.g
	st := in.Type().Underlying().(*types.Slice)
	ln := g.toIdx(f.val(in.Len))
	cp := g.toIdx(f.val(in.Cap))
	f.safetyOblig("makeslice-len", in, and(g.icmp("<=", g.idxLit(0), ln, true), g.icmp("<=", ln, cp, true)))
	p := f.newObjID()
	pn := g.freshConst("mkslice", "Ptr")
	g.assumeDef(pn, eq(pn, p))
	if isLeafElem(st.Elem()) {
		key := "E|" + typeKey(st.Elem())
		g.ensureKey(key, g.sortOf(st.Elem()))
		f.cur.set(key, app("store", f.cur.get(key), pn, fmt.Sprintf("((as const (Array %s %s)) %s)", g.idxSort(), g.sortOf(st.Elem()), constValue(g.zero(st.Elem()).S))))
	} else {
		g.note("make([]struct) zero-initialisation is not modelled")
	}
	f.define(in, Val{S: app("mk-slice", pn, g.idxLit(0), ln, cp), Sort: "Slice", GT: in.Type()})
}

func (f *Frame) lookup(in *ssa.Lookup) {
	g := f.g
	x := f.val(in.X)
	if isString(in.X.Type()) {
		i := g.toIdx(f.val(in.Index))
		f.safetyOblig("bounds", in, and(g.icmp("<=", g.idxLit(0), i, true), g.icmp("<", i, app("gstr.len", x.S), true)))
		f.define(in, Val{S: app("gstr.at", x.S, i), Sort: g.sortOf(tByte), GT: tByte})
		return
	}
	mt, ok := in.X.Type().Underlying().(*types.Map)
	if !ok {
		f.define(in, g.havocVal("lookup", in.Type()))
		return
	}
	dk, vk := g.mapKeys(mt)
	k := f.val(in.Index)
	present := and(not(eq(x.S, "nilptr")), app("select", app("select", f.cur.get(dk), x.S), k.S))
	raw := app("select", app("select", f.cur.get(vk), x.S), k.S)
	val := Val{S: ite(present, raw, g.zero(mt.Elem()).S), Sort: g.sortOf(mt.Elem()), GT: mt.Elem()}
	g.assume(implies(f.curReach, implies(present, g.typeInv(Val{S: raw, Sort: val.Sort, GT: mt.Elem()}, f.alloc()))))
	if in.CommaOk {
		f.define(in, Val{Sort: "Tuple", GT: in.Type(), Tuple: []Val{val, g.boolVal(present)}})
	} else {
		f.define(in, val)
	}
}

func (f *Frame) unop(in *ssa.UnOp) {
	g := f.g
	x := f.val(in.X)
	switch in.Op {
	case token.MUL:
		if gl, ok := in.X.(*ssa.Global); ok {
			if cv, ok := g.constGlobalVal(gl); ok {
				cv.GT = in.Type()
				f.define(in, cv)
				return
			}
		}
		f.safetyOblig("nil-deref", in, not(eq(x.S, "nilptr")))
		v := f.load(x, in.Type())
		v = f.define(in, v)
		g.assumeDef(v.S, implies(f.curReach, g.typeInv(v, f.alloc())))
	case token.NOT:
		f.define(in, g.boolVal(not(x.S)))
	case token.SUB:
		if isFloat(in.Type()) {
			f.define(in, Val{S: app("fp.neg", x.S), Sort: x.Sort, GT: in.Type()})
		} else if g.BV {
			f.define(in, Val{S: app("bvneg", x.S), Sort: x.Sort, GT: in.Type()})
		} else {
			bits, signed, _ := intInfo(in.Type())
			r := app("-", x.S)
			if !signed {
				r = app("mod", r, pow2(bits).String())
			} else if !g.FC.NoOvf {
				lo, _ := intRange(bits, signed)
				f.overflowOblig(in, not(eq(x.S, smtInt(lo))))
			}
			f.define(in, Val{S: r, Sort: "Int", GT: in.Type()})
		}
	case token.XOR:
		if g.BV {
			f.define(in, Val{S: app("bvnot", x.S), Sort: x.Sort, GT: in.Type()})
		} else {
			bits, signed, _ := intInfo(in.Type())
			if signed {
				f.define(in, Val{S: app("-", app("-", x.S), "1"), Sort: "Int", GT: in.Type()})
			} else {
				f.define(in, Val{S: app("-", new(big.Int).Sub(pow2(bits), big.NewInt(1)).String(), x.S), Sort: "Int", GT: in.Type()})
			}
		}
	case token.ARROW:
		v := g.havocVal("recv", in.Type())
		f.define(in, v)
	default:
		f.define(in, g.havocVal("unop", in.Type()))
		g.note("unsupported unary op " + in.Op.String())
	}
}

func (f *Frame) overflowOblig(in ssa.Instruction, goal string) {
	if !f.top || f.g.FC == nil || f.g.FC.NoOvf || !f.g.FC.Safety {
		return
	}
	f.safetyOblig("overflow", in, goal)
}

func (f *Frame) makeInterface(x Val, t types.Type) Val {
	g := f.g
	tag := g.typeTag(x.GT)
	if pointerShaped(x.GT) {
		return Val{S: app("mk-iface", fmt.Sprint(tag), x.S), Sort: "Iface", GT: t}
	}
	box := f.newObject(x.GT, "box")
	f.storeAt(box.Place, x, x.GT)
	g.boxedTags[tag] = true
	return Val{S: app("mk-iface", fmt.Sprint(tag), box.S), Sort: "Iface", GT: t}
}

func (g *Gen) tagTest(x string, t types.Type) string {
	if _, isIface := t.Underlying().(*types.Interface); isIface {
		name := "implements!" + typeKey(t)
		g.declFun(name, []string{"Int"}, "Bool")
		return and(not(eq(app("i_tag", x), "0")), app(name, app("i_tag", x)))
	}
	return eq(app("i_tag", x), fmt.Sprint(g.typeTag(t)))
}

func (f *Frame) typeAssert(in *ssa.TypeAssert) {
	g := f.g
	x := f.val(in.X)
	ok := g.tagTest(x.S, in.AssertedType)
	var v Val
	if _, isIface := in.AssertedType.Underlying().(*types.Interface); isIface {
		v = Val{S: x.S, Sort: "Iface", GT: in.AssertedType}
	} else if pointerShaped(in.AssertedType) {
		v = Val{S: app("i_val", x.S), Sort: "Ptr", GT: in.AssertedType}
	} else {
		pl := &Place{Kind: 3, Ptr: app("i_val", x.S)}
		v = g.loadAt(pl, in.AssertedType, f.cur)
	}
	if in.CommaOk {
		zv := g.zero(in.AssertedType)
		f.define(in, Val{Sort: "Tuple", GT: in.Type(), Tuple: []Val{{S: ite(ok, v.S, zv.S), Sort: v.Sort, GT: v.GT}, g.boolVal(ok)}})
		return
	}
	f.safetyOblig("type-assert", in, ok)
	g.assume(implies(f.curReach, ok))
	f.define(in, v)
}

func (f *Frame) next(in *ssa.Next) {
	g := f.g
	tup := in.Type().(*types.Tuple)
	rng, _ := in.Iter.(*ssa.Range)
	if in.IsString || rng == nil {
		v := g.havocVal("next", in.Type())
		if in.IsString && rng != nil {
			// index within the string while ok
			s := f.val(rng.X)
			okv, iv := v.Tuple[0], v.Tuple[1]
			g.assume(implies(okv.S, and(g.icmp("<=", g.idxLit(0), iv.S, true), g.icmp("<", iv.S, app("gstr.len", s.S), true))))
			g.note("range over string: rune decoding is not modelled")
		}
		g.assume(g.typeInv(v.Tuple[1], ""))
		f.define(in, v)
		return
	}
	mt := rng.X.Type().Underlying().(*types.Map)
	m := f.val(rng.X)
	dk, vk := g.mapKeys(mt)
	okv := g.havocVal("next.ok", tup.At(0).Type())
	kv := g.havocVal("next.k", mt.Key())
	g.assume(implies(okv.S, and(not(eq(m.S, "nilptr")), app("select", app("select", f.cur.get(dk), m.S), kv.S))))
	g.assume(g.typeInv(kv, f.alloc()))
	vv := Val{S: app("select", app("select", f.cur.get(vk), m.S), kv.S), Sort: g.sortOf(mt.Elem()), GT: mt.Elem()}
	g.assume(implies(okv.S, g.typeInv(vv, f.alloc())))
	f.define(in, Val{Sort: "Tuple", GT: in.Type(), Tuple: []Val{okv, kv, vv}})
}

// siteObligs emits the `site LABEL: call NAME requires EXPR` obligations of the contract at a matching call.
func (f *Frame) siteObligs(in *ssa.Call) {
	g := f.g
	if !f.top || g.FC == nil || len(g.FC.Sites) == 0 {
		return
	}
	callee := in.Common().StaticCallee()
	if callee == nil {
		return
	}
	full := fullName(callee)
	_, short := ContractName(callee)
	for _, sc := range g.FC.Sites {
		pat := strings.TrimSpace(strings.TrimPrefix(sc.Pattern, "call "))
		if !strings.HasPrefix(sc.Pattern, "call ") || sc.E == nil {
			continue
		}
		if pat != short && pat != full && !strings.HasSuffix(full, "."+pat) {
			continue
		}
		env := f.envAt(in.Block(), f.cur, nil)
		env.upTo = f.instrIdx[in]
		for i, a := range in.Common().Args {
			env.bind[fmt.Sprintf("arg%d", i)] = f.val(a)
		}
		goal, inScope := trySiteGoal(env, sc.E)
		if !inScope {
			continue // a variable of the clause is not in scope at this site: the clause does not apply here
		}
		g.siteSeq[sc.Label]++
		g.addOblig(&Oblig{Name: f.obName("site", &Clause{Label: fmt.Sprintf("%s.%d", sc.Label, g.siteSeq[sc.Label])}, 0), Kind: "site",
			Goal: implies(f.curReach, goal), Pos: f.pos(in.Pos()), Text: sc.Pattern + " requires " + sc.Text, ClauseProps: sc.Props,
			ReplayTemplate: g.FC.Opts["scenario"], ReplayPkgDir: strings.TrimPrefix(strings.TrimPrefix(g.FC.Pkg, modPath), "/")})
		g.siteHits[sc.Label]++
	}
}

// siteStoreObligs emits `site LABEL: store Type.field requires EXPR` obligations (the stored value is bound to `value`).
func (f *Frame) siteStoreObligs(in *ssa.Store) {
	g := f.g
	if !f.top || g.FC == nil || len(g.FC.Sites) == 0 {
		return
	}
	fa, ok := in.Addr.(*ssa.FieldAddr)
	if !ok {
		return
	}
	pt := fa.X.Type().Underlying().(*types.Pointer)
	st := pt.Elem().Underlying().(*types.Struct)
	tname := ""
	if n, ok := pt.Elem().(*types.Named); ok {
		tname = n.Obj().Name()
	}
	target := tname + "." + st.Field(fa.Field).Name()
	for _, sc := range g.FC.Sites {
		if !strings.HasPrefix(sc.Pattern, "store ") || sc.E == nil {
			continue
		}
		pat := strings.Fields(strings.TrimSpace(strings.TrimPrefix(sc.Pattern, "store ")))
		if len(pat) == 0 || pat[0] != target {
			continue
		}
		if len(pat) == 3 && pat[1] == "new" {
			// `store T.f new U`: only stores of a U value allocated right here (a composite literal of this function)
			v := in.Val
			if mi, ok := v.(*ssa.MakeInterface); ok {
				v = mi.X
			}
			al, ok := v.(*ssa.Alloc)
			if !ok {
				continue
			}
			nt, ok := al.Type().Underlying().(*types.Pointer).Elem().(*types.Named)
			if !ok || nt.Obj().Name() != pat[2] {
				continue
			}
		} else if len(pat) != 1 {
			continue
		}
		env := f.envAt(in.Block(), f.cur, nil)
		env.upTo = f.instrIdx[in]
		env.bind["value"] = f.val(in.Val)
		env.bind["target"] = f.val(fa.X)
		goal, inScope := trySiteGoal(env, sc.E)
		if !inScope {
			continue
		}
		g.siteSeq[sc.Label]++
		g.addOblig(&Oblig{Name: f.obName("site", &Clause{Label: fmt.Sprintf("%s.%d", sc.Label, g.siteSeq[sc.Label])}, 0), Kind: "site",
			Goal: implies(f.curReach, goal), Pos: f.pos(in.Pos()), Text: sc.Pattern + " requires " + sc.Text, ClauseProps: sc.Props,
			ReplayTemplate: g.FC.Opts["scenario"], ReplayPkgDir: strings.TrimPrefix(strings.TrimPrefix(g.FC.Pkg, modPath), "/")})
		g.siteHits[sc.Label]++
	}
}

// trySiteGoal translates a site clause; an identifier that is not in scope at the site makes the clause
// inapplicable there (a clause that applies nowhere is reported as stale by the caller).
func trySiteGoal(env *Env, e Expr) (goal string, ok bool) {
	defer func() {
		if r := recover(); r != nil {
			if se, isSpec := r.(specError); isSpec && strings.HasPrefix(se.msg, "unknown identifier") {
				goal, ok = "", false
				return
			}
			panic(r)
		}
	}()
	return env.trBool(e), true
}

// siteAppendObligs emits `site LABEL: append requires EXPR` obligations at every append (optionally
// `append to NAME`). In EXPR, each(P) is the conjunction of P over every appended element (bound to
// `elem`, with `prev` bound to the element appended just before it in the same call, or to the last element
// of the destination for the first one); `dest` is the destination slice before the append.
func (f *Frame) siteAppendObligs(in *ssa.Call) {
	g := f.g
	if !f.top || g.FC == nil || len(g.FC.Sites) == 0 {
		return
	}
	b, ok := in.Call.Value.(*ssa.Builtin)
	if !ok || b.Name() != "append" {
		return
	}
	for _, sc := range g.FC.Sites {
		if !strings.HasPrefix(sc.Pattern, "append") || sc.E == nil {
			continue
		}
		if rest := strings.TrimSpace(strings.TrimPrefix(sc.Pattern, "append")); strings.HasPrefix(rest, "to ") {
			want := strings.TrimSpace(rest[3:])
			if valuePath(in.Call.Args[0]) != want && valuePath(in.Call.Args[0]) != "phi:"+want {
				continue
			}
		}
		if rest := strings.TrimSpace(strings.TrimPrefix(sc.Pattern, "append")); strings.HasPrefix(rest, "lit ") {
			// `append lit "TEXT"`: only the sites that append exactly that string constant
			want, err := strconv.Unquote(strings.TrimSpace(rest[4:]))
			k, isConst := in.Call.Args[1].(*ssa.Const)
			if err != nil || !isConst || k.Value == nil || k.Value.Kind() != constant.String || constant.StringVal(k.Value) != want {
				continue
			}
		}
		env := f.envAt(in.Block(), f.cur, nil)
		env.upTo = f.instrIdx[in]
		env.bind["dest"] = f.val(in.Call.Args[0])
		// opaque: the appended operand is the result of a call whose contract says nothing about its contents
		opaque := "false"
		if c, isCall := in.Call.Args[1].(*ssa.Call); isCall {
			if callee := c.Call.StaticCallee(); callee == nil || g.P.ContractFor(callee) == nil {
				opaque = "true"
				nm := "a dynamic call"
				if callee != nil {
					nm = fullName(callee)
				}
				g.Assumptions["site "+sc.Label+": the contents of the value appended at "+f.pos(in.Pos())+" come from "+nm+" and are not constrained (clauses guarded by !opaque do not cover it)"] = true
			}
		}
		env.bind["opaque"] = g.boolVal(opaque)
		env.appendArg = in.Call.Args[1]
		env.appendFrame = f
		goal, inScope := trySiteGoal(env, sc.E)
		if !inScope {
			continue
		}
		g.siteSeq[sc.Label]++
		g.addOblig(&Oblig{Name: f.obName("site", &Clause{Label: fmt.Sprintf("%s.%d", sc.Label, g.siteSeq[sc.Label])}, 0), Kind: "site",
			Goal: implies(f.curReach, goal), Pos: f.pos(in.Pos()), Text: sc.Pattern + " requires " + sc.Text, ClauseProps: sc.Props})
		g.siteHits[sc.Label]++
	}
}
