#!/usr/bin/env python3
# Regenerates the seeded-change table of DESIGN.md section 9.5 from seeded/RESULTS.txt and seeded/*/meta.json.
import json, os, re
rows = []
for line in open('/verif/seeded/RESULTS.txt'):
    parts = line.rstrip('\n').split(' ', 3)
    if len(parts) < 3:
        continue
    name, prop, verdict = parts[0], parts[1], parts[2]
    detail = parts[3] if len(parts) > 3 else ''
    meta = {}
    try:
        meta = json.load(open(f'/verif/seeded/{name}/meta.json'))
    except Exception:
        pass
    what = (meta.get('summary') or '').replace('|', '\\|').replace('\n', ' ')
    what = re.sub(r'\s+', ' ', what)
    if len(what) > 170:
        what = what[:167] + '...'
    ob = ''
    if verdict == 'DETECTED':
        ob = detail.split(':')[0].strip()
        ob = ob.replace('|', '\\|')
    rows.append((name, verdict.lower(), ob, what))
det = sum(1 for r in rows if r[1] == 'detected')
out = [f'{det} of {len(rows)} seeded changes are reported by the check of the property they break '
       f'(`./selftest.sh`, last full run; every one of them compiles and passes the 16683-test suite).', '',
       '| seed | verdict | first obligation that fails | what was changed |',
       '|------|---------|------------------------------|------------------|']
for name, v, ob, what in rows:
    out.append(f'| {name} | {v} | {("`"+ob+"`") if ob else ""} | {what} |')
text = '\n'.join(out)
p = '/verif/DESIGN.md'
s = open(p).read()
b, e = '<!-- seedtable:begin -->', '<!-- seedtable:end -->'
if b in s:
    i, j = s.index(b) + len(b), s.index(e)
    s = s[:i] + '\n' + text + '\n' + s[j:]
else:
    s = s.replace('SEEDTABLE', b + '\n' + text + '\n' + e, 1)
open(p, 'w').write(s)
print(f'{det}/{len(rows)} detected')
