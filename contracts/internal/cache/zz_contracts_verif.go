//go:build verif

package cache

// ----------------------------------------------------------------------------------------------
// C09: the file-system cache may hand back contents read in an earlier build only when the file's
// modification key, read NOW, is usable (no error now, and usable when the entry was stored) and equal to the
// stored one. Any other path must go to the file system. (Dominance over go/ssa.)
//@ guarded fs-cache-hit C09: func=(*FSCache).ReadFile ; in=cache ; site=assign contents *.contents ; require=true:*.modKey==call ModKey(*)#0 && true:call ModKey(*)#1==nil && true:*.isModKeyUsable && true:*!=nil
// what is stored for the next build is what was just read, under the key read just before it, marked usable iff that key was
//@ flow fs-cache-stores-what-was-read C09: func=(*FSCache).ReadFile ; in=cache ; site=store fsEntry.contents ; valuepath=*call ReadFile(*)#0*|contents
//@ flow fs-cache-stores-current-key C09: func=(*FSCache).ReadFile ; in=cache ; site=store fsEntry.modKey ; valuepath=call ModKey(*)#0
//@ flow fs-cache-usable-iff-no-error C09: func=(*FSCache).ReadFile ; in=cache ; site=store fsEntry.isModKeyUsable ; valuepath=call ModKey(*)#1==nil

// C20 / C09: the incremental caches are shared by every goroutine of a build and by concurrent builds of one
// context: their tables may only be touched under their mutex, which is released on every path.
//@ protect fs-cache-table C20 C09: type=FSCache ; fields=entries ; mutex=mutex ; in=cache
//@ protect js-cache-table C20 C09: type=JSCache ; fields=entries ; mutex=mutex ; in=cache
//@ protect css-cache-table C20 C09: type=CSSCache ; fields=entries ; mutex=mutex ; in=cache
//@ protect json-cache-table C20 C09: type=JSONCache ; fields=entries ; mutex=mutex ; in=cache
//@ protect source-index-table C20 C08: type=SourceIndexCache ; fields=entries,globEntries,nextSourceIndex ; mutex=mutex ; in=cache
