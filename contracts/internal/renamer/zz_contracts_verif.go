//go:build verif

package renamer

// ----------------------------------------------------------------------------------------------
// C08 (F4): every comparator whose input order can depend on map iteration or goroutine arrival
// is a strict order (asymmetric, transitive) whose ties agree on every compared key, so the sorted
// result is a function of the set of elements (given distinct keys, established where they are built).

//@ lemma StableSymbolCountArray_Less_asymmetric C08: forall a StableSymbolCountArray, i int, j int ::
//@     0 <= i && i < len(a) && 0 <= j && j < len(a) ==> !(a.Less(i, j) && a.Less(j, i))
//@ lemma StableSymbolCountArray_Less_transitive C08: forall a StableSymbolCountArray, i int, j int, k int ::
//@     0 <= i && i < len(a) && 0 <= j && j < len(a) && 0 <= k && k < len(a) && a.Less(i, j) && a.Less(j, k) ==> a.Less(i, k)
//@ lemma StableSymbolCountArray_Less_total C08: forall a StableSymbolCountArray, i int, j int ::
//@     0 <= i && i < len(a) && 0 <= j && j < len(a) && !a.Less(i, j) && !a.Less(j, i) ==> a[i].Count == a[j].Count && a[i].StableSourceIndex == a[j].StableSourceIndex && a[i].Ref.InnerIndex == a[j].Ref.InnerIndex

//@ lemma slotAndCountArray_Less_asymmetric C08: forall a slotAndCountArray, i int, j int ::
//@     0 <= i && i < len(a) && 0 <= j && j < len(a) ==> !(a.Less(i, j) && a.Less(j, i))
//@ lemma slotAndCountArray_Less_transitive C08: forall a slotAndCountArray, i int, j int, k int ::
//@     0 <= i && i < len(a) && 0 <= j && j < len(a) && 0 <= k && k < len(a) && a.Less(i, j) && a.Less(j, k) ==> a.Less(i, k)
//@ lemma slotAndCountArray_Less_total C08: forall a slotAndCountArray, i int, j int ::
//@     0 <= i && i < len(a) && 0 <= j && j < len(a) && !a.Less(i, j) && !a.Less(j, i) ==> a[i].count == a[j].count && a[i].slot == a[j].slot


// ----------------------------------------------------------------------------------------------
// C10: cross-chunk export aliases handed out by one ExportRenamer are pairwise distinct: every
// returned name was not handed out before and is recorded as handed out afterwards.
//@ func (*ExportRenamer).NextRenamedName
//@   arith int
//@   prop C10
//@   requires r != nil
//@   ensures fresh: !old(inDom(r.used, result))
//@   ensures recorded: inDom(r.used, result)
//@   ensures monotone: forall k string :: old(inDom(r.used, k)) ==> inDom(r.used, k)

// ----------------------------------------------------------------------------------------------
// C15: a minified name is never a reserved name (keywords, strict-mode reserved words, free/unbound
// and pinned names of every module scope), labels are never keywords, and names of symbols used as
// JSX tags do not start with a lower-case ASCII letter.
//@ func (*MinifyRenamer).AssignNamesByFrequency
//@   arith int
//@   prop C15
//@   opt scenario jsx_capital_reserved
//@   site not-reserved: store symbolSlot.name requires ns == int(ast.SlotDefault) ==> r.reservedNames[value] == 0
//@   site label-not-keyword: store symbolSlot.name requires ns == int(ast.SlotLabel) ==> js_lexer.Keywords[value] == 0
//@   site jsx-capital: store symbolSlot.name requires ns == int(ast.SlotDefault) && slot.needsCapitalForJSX != 0 ==> !(value[0] >= 'a' && value[0] <= 'z')
