//go:build verif

package helpers

// C09: element-wise string slice equality (used by the parser-option equality that keys the AST cache)
//@ func StringArraysEqual
//@   arith int
//@   safety
//@   prop C09 C16
//@   modifies nothing
//@   ensures same: result ==> len(a) == len(b) && (forall k int :: 0 <= k && k < len(a) ==> a[k] == b[k])
//@   loop 0 invariant -1 <= rangeindex && rangeindex < len(a) || (len(a) == 0 && rangeindex == -1)
//@   loop 0 invariant len(a) == len(b)
//@   loop 0 invariant forall k int :: 0 <= k && k <= rangeindex ==> a[k] == b[k]
//@   loop 0 decreases len(a) - rangeindex
