//go:build verif

package css_ast

// ----------------------------------------------------------------------------------------------
// C12 (F3): structural equality licenses rule merging (mangleRules) and duplicate-rule removal
// (DeadRuleRemover). "Equal(a, b)" must therefore imply that a and b agree on every field that
// affects what the rule matches or declares (positional fields excluded).

//@ lemma NameToken_Equal_complete C12: forall a NameToken, b NameToken :: a.Equal(b) ==> a.Text == b.Text && a.Kind == b.Kind

//@ lemma NamespacedName_Equal_complete C12 replay=css_namespace_prefix_equal: forall a NamespacedName, b NamespacedName :: a.Equal(b) ==>
//@     a.Name.Text == b.Name.Text && a.Name.Kind == b.Name.Kind &&
//@     ((a.NamespacePrefix == nil) == (b.NamespacePrefix == nil)) &&
//@     (a.NamespacePrefix != nil && b.NamespacePrefix != nil ==>
//@         a.NamespacePrefix.Text == b.NamespacePrefix.Text && a.NamespacePrefix.Kind == b.NamespacePrefix.Kind)
