//go:build verif

package fs

// ----------------------------------------------------------------------------------------------
// C09: watch mode / incremental rebuilds must notice every change to a file that was read. realFS records
// per path WHAT to compare at the next rebuild (watchState). After ReadFile the recorded state must be a
// FILE state (compare the modification key / contents / presence), never a directory state left behind by
// an earlier ReadDirectory probe of the same path - otherwise edits to the file are never compared.
// Environment assumption (requires): a path that was recorded as a readable directory
// (stateDirHasAccessedEntries) is not also read as a file in the same build; recorded entries are never stateNone.
//@ func (*realFS).ReadFile
//@   arith int
//@   prop C09
//@   requires fs != nil
//@   requires fs.watchData != nil && inDom(fs.watchData, path) ==> fs.watchData[path].state != stateDirHasAccessedEntries && fs.watchData[path].state != stateNone && fs.watchData[path].state <= stateFileUnusableModKey
//@   ensures recorded: fs.watchData != nil ==> inDom(fs.watchData, path)
//@   ensures file-state: fs.watchData != nil && result1 == nil ==>
//@       fs.watchData[path].state == stateFileNeedModKey || fs.watchData[path].state == stateFileHasModKey ||
//@       fs.watchData[path].state == stateFileUnusableModKey || fs.watchData[path].state == stateFileMissing
//@   ensures first-read-needs-key: fs.watchData != nil && result1 == nil && (!old(inDom(fs.watchData, path)) || old(fs.watchData[path].state) == stateDirUnreadable) ==>
//@       fs.watchData[path].state == stateFileNeedModKey
//@   ensures missing: fs.watchData != nil && result1 != nil ==> fs.watchData[path].state == stateFileMissing
//@   ensures contents: fs.watchData != nil ==> fs.watchData[path].fileContents == result0

// ModKey: like ReadFile, it must leave a FILE state behind (on a rebuild whose FS cache hits on the key it is
// the ONLY call made for the file, so a directory state left by an earlier package-directory probe must be
// repaired here too). It records the key it returns; a path seen for the first time gets the state that
// matches the outcome (usable key -> compare the key; unusable -> compare contents; error -> compare
// presence); a path whose contents were already read (stateFileNeedModKey) is upgraded to key comparison;
// every other file state is left alone.
//@ func (*realFS).ModKey
//@   arith int
//@   prop C09
//@   opt scenario modkey_after_dir_probe
//@   requires fs != nil
//@   requires fs.watchData != nil && inDom(fs.watchData, path) ==> fs.watchData[path].state != stateDirHasAccessedEntries && fs.watchData[path].state != stateNone && fs.watchData[path].state <= stateFileUnusableModKey
//@   ensures file-state: fs.watchData != nil ==>
//@       fs.watchData[path].state == stateFileNeedModKey || fs.watchData[path].state == stateFileHasModKey ||
//@       fs.watchData[path].state == stateFileUnusableModKey || fs.watchData[path].state == stateFileMissing
//@   ensures recorded: fs.watchData != nil ==> inDom(fs.watchData, path) && fs.watchData[path].modKey == result0
//@   ensures first-seen: fs.watchData != nil && !old(inDom(fs.watchData, path)) ==>
//@       fs.watchData[path].state == (result1 == modKeyUnusable ? stateFileUnusableModKey : (result1 != nil ? stateFileMissing : stateFileHasModKey))
//@   ensures upgrade: fs.watchData != nil && old(inDom(fs.watchData, path)) && old(fs.watchData[path].state) == stateFileNeedModKey ==> fs.watchData[path].state == stateFileHasModKey
//@   ensures file-states-kept: fs.watchData != nil && old(inDom(fs.watchData, path)) && old(fs.watchData[path].state) != stateFileNeedModKey && old(fs.watchData[path].state) != stateDirUnreadable ==> fs.watchData[path].state == old(fs.watchData[path].state)
//@   ensures contents-kept: fs.watchData != nil ==> fs.watchData[path].fileContents == old(fs.watchData[path].fileContents)

// ----------------------------------------------------------------------------------------------
// C16 (zero-annotation safety sweep): for ALL arguments (no precondition), no index, slice, nil-dereference,
// division or conversion in the body of these functions can panic. Loop counters that start at a constant and are
// only incremented get their lower bound as an automatic invariant (`opt auto-counters`); nothing else is assumed.
// Calls are replaced by contracts, inlined, or havocked: a panic inside a callee without a contract is not covered.
//@ func win2unix
//@   arith int
//@   nooverflow off
//@   safety
//@   opt auto-counters 1
//@   prop C16

//@ func isReservedName
//@   arith int
//@   nooverflow off
//@   safety
//@   opt auto-counters 1
//@   prop C16


// C20 / C09: the real file system's directory cache and watch table are shared by all resolver/bundler goroutines.
//@ protect fs-entries-cache C20 C09: type=realFS ; fields=entries ; mutex=entriesMutex ; in=fs
// (no rule for realFS.watchData: the field is tested for nil before the lock is taken - the map header never changes
// after construction - and WatchData() walks it after the build has ended; a field-level lock rule would flag both.)
//@ protect accessed-entries C20 C09: type=accessedEntries ; fields=wasPresent,allEntries ; mutex=mutex ; in=fs
//@ protect entry-stat C20: type=Entry ; fields=kind,needStat,symlink ; mutex=mutex ; in=fs

// C09 (watch mode): realFS.WatchData reads accessedEntries.allEntries == nil as "this directory was never enumerated"
// and then only re-checks the names that were looked up individually. An enumeration (glob import, plugin watch dir)
// must therefore always record a non-nil list, also for a directory with zero entries, or a file that later appears in
// that directory is never noticed.
//@ func (DirEntries).SortedKeys
//@   arith int
//@   prop C09
//@   opt scenario watch_empty_dir_enumeration
//@   site enumeration-is-recorded: store accessedEntries.allEntries requires value != nil
//@   loop 0 invariant keys != nil
