//go:build verif

package css_printer

// C09 (F11): see js_printer; the same frame for the CSS printer.
//@ func Print
//@   prop C09
//@   opt frame-only
//@   opt frame-forbid css_ast_
//@   modifies nothing
