//go:build verif

package js_ast

// ----------------------------------------------------------------------------------------------
// C03 / C06: compile-time evaluation. Spec source: ECMA-262 7.1.6 ToInt32, 7.1.7 ToUint32,
// 6.1.6.1 Number::* operations, 7.2.13 IsLessThan on strings (code-unit order).

// ECMA-262 7.1.6 ToInt32: NaN, +-0, +-Infinity -> 0; otherwise truncate, reduce modulo 2^32,
// and read as a signed 32-bit value. For |f| >= 2^85 the double is a multiple of 2^33, hence 0.
//@ spec func jsToInt32(f float64) int32 =
//@     (fp.isNaN(f) || fp.isInf(f) || fp.geq(fp.abs(f), 0x1p85)) ? int32(0) : bv.as(int32, bv.extract(31, 0, fp.to_sbv(96, f)))

//@ func ToInt32
//@   arith bv
//@   prop C03 C06
//@   witness f: f
//@   opt replay toint32
//@   ensures spec: result == jsToInt32(f)

//@ func ToUint32
//@   arith bv
//@   prop C03 C06
//@   ensures spec: result == uint32(jsToInt32(f))

// Numeric / string literal views (through EAnnotation and EInlinedEnum wrappers)
//@ spec rec func isNum(d E) bool = is(d, *ENumber) || (is(d, *EAnnotation) && isNum(d.(*EAnnotation).Value.Data)) ||
//@     (is(d, *EInlinedEnum) && isNum(d.(*EInlinedEnum).Value.Data))
//@ spec rec func numVal(d E) float64 = is(d, *ENumber) ? d.(*ENumber).Value :
//@     (is(d, *EAnnotation) ? numVal(d.(*EAnnotation).Value.Data) : numVal(d.(*EInlinedEnum).Value.Data))
//@ spec rec func isStr(d E) bool = is(d, *EString) || (is(d, *EAnnotation) && isStr(d.(*EAnnotation).Value.Data)) ||
//@     (is(d, *EInlinedEnum) && isStr(d.(*EInlinedEnum).Value.Data))
//@ spec rec func strVal(d E) []uint16 = is(d, *EString) ? d.(*EString).Value :
//@     (is(d, *EAnnotation) ? strVal(d.(*EAnnotation).Value.Data) : strVal(d.(*EInlinedEnum).Value.Data))

//@ func extractNumericValue
//@   arith bv
//@   prop C03 C06
//@   modifies nothing
//@   ensures ok: result1 == isNum(data)
//@   ensures val: result1 ==> same(result0, numVal(data))

//@ func extractStringValue
//@   arith bv
//@   prop C03 C06
//@   modifies nothing
//@   ensures ok: result1 == isStr(data)
//@   ensures val: result1 ==> result0 == strVal(data)

// Code-unit lexicographic order (ECMA-262 IsLessThan on strings)
//@ spec func ucs2Eq(a []uint16, b []uint16) bool = len(a) == len(b) && (forall j int :: 0 <= j && j < len(a) ==> a[j] == b[j])
//@ spec func ucs2Lt(a []uint16, b []uint16) bool = exists k int :: 0 <= k && k <= len(a) && k <= len(b) &&
//@     (forall j int :: 0 <= j && j < k ==> a[j] == b[j]) && ((k == len(a) && k < len(b)) || (k < len(a) && k < len(b) && a[k] < b[k]))

//@ func stringCompareUCS2
//@   opt transparent ucs2Lt ucs2Eq
//@   arith int
//@   safety
//@   prop C03 C06 C16
//@   ensures lt: result < 0 <==> ucs2Lt(a, b)
//@   ensures eq: result == 0 <==> ucs2Eq(a, b)
//@   ensures gt: result > 0 <==> ucs2Lt(b, a)
//@   loop 0 invariant 0 <= i && i <= n && n <= len(a) && n <= len(b) && (n == len(a) || n == len(b))
//@   loop 0 invariant forall j int :: 0 <= j && j < i ==> a[j] == b[j]
//@   loop 0 decreases n - i

//@ spec func bothNum(e *EBinary) bool = isNum(e.Left.Data) && isNum(e.Right.Data)
//@ spec func lnum(e *EBinary) float64 = numVal(e.Left.Data)
//@ spec func rnum(e *EBinary) float64 = numVal(e.Right.Data)
// The numeric arm is tried first, so the string arms are stated for operands that are not both numeric
// (a literal cannot be both; proving that disjointness needs induction over wrapper chains, so it is
// stated in the antecedent instead of assumed).
//@ spec func bothStr(e *EBinary) bool = isStr(e.Left.Data) && isStr(e.Right.Data)
//@ spec func isNumRes(r Expr) bool = is(r.Data, *ENumber)
//@ spec func numRes(r Expr) float64 = r.Data.(*ENumber).Value
//@ spec func isBoolRes(r Expr) bool = is(r.Data, *EBoolean)
//@ spec func boolRes(r Expr) bool = r.Data.(*EBoolean).Value
//@ spec func shiftCount(f float64) uint32 = uint32(jsToInt32(f)) & 31

//@ func FoldBinaryOperator
//@   arith bv
//@   prop C03 C06
//@   witness l: old(lnum(e))
//@   witness r: old(rnum(e))
//@   witness op: old(e.Op)
//@   opt replay fold_binary_numeric
//@   ensures add: old(bothNum(e) && e.Op == BinOpAdd) ==> isNumRes(result) && same(numRes(result), fp.add(old(lnum(e)), old(rnum(e))))
//@   ensures sub: old(bothNum(e) && e.Op == BinOpSub) ==> isNumRes(result) && same(numRes(result), fp.sub(old(lnum(e)), old(rnum(e))))
//@   ensures mul: old(bothNum(e) && e.Op == BinOpMul) ==> isNumRes(result) && same(numRes(result), fp.mul(old(lnum(e)), old(rnum(e))))
//@   ensures div: old(bothNum(e) && e.Op == BinOpDiv) ==> isNumRes(result) && same(numRes(result), fp.div(old(lnum(e)), old(rnum(e))))
//@   ensures rem: old(bothNum(e) && e.Op == BinOpRem) ==> isNumRes(result) && same(numRes(result), math.Mod(old(lnum(e)), old(rnum(e))))
//@   ensures shl: old(bothNum(e) && e.Op == BinOpShl) ==> isNumRes(result) &&
//@       same(numRes(result), float64(jsToInt32(old(lnum(e))) << shiftCount(old(rnum(e)))))
//@   ensures shr: old(bothNum(e) && e.Op == BinOpShr) ==> isNumRes(result) &&
//@       same(numRes(result), float64(jsToInt32(old(lnum(e))) >> shiftCount(old(rnum(e)))))
//@   ensures ushr: old(bothNum(e) && e.Op == BinOpUShr) ==> isNumRes(result) &&
//@       same(numRes(result), float64(uint32(jsToInt32(old(lnum(e)))) >> shiftCount(old(rnum(e)))))
//@   ensures and: old(bothNum(e) && e.Op == BinOpBitwiseAnd) ==> isNumRes(result) &&
//@       same(numRes(result), float64(jsToInt32(old(lnum(e))) & jsToInt32(old(rnum(e)))))
//@   ensures or: old(bothNum(e) && e.Op == BinOpBitwiseOr) ==> isNumRes(result) &&
//@       same(numRes(result), float64(jsToInt32(old(lnum(e))) | jsToInt32(old(rnum(e)))))
//@   ensures xor: old(bothNum(e) && e.Op == BinOpBitwiseXor) ==> isNumRes(result) &&
//@       same(numRes(result), float64(jsToInt32(old(lnum(e))) ^ jsToInt32(old(rnum(e)))))
//@   ensures lt: old(bothNum(e) && e.Op == BinOpLt) ==> isBoolRes(result) && boolRes(result) == fp.lt(old(lnum(e)), old(rnum(e)))
//@   ensures gt: old(bothNum(e) && e.Op == BinOpGt) ==> isBoolRes(result) && boolRes(result) == fp.gt(old(lnum(e)), old(rnum(e)))
//@   ensures le: old(bothNum(e) && e.Op == BinOpLe) ==> isBoolRes(result) && boolRes(result) == fp.leq(old(lnum(e)), old(rnum(e)))
//@   ensures ge: old(bothNum(e) && e.Op == BinOpGe) ==> isBoolRes(result) && boolRes(result) == fp.geq(old(lnum(e)), old(rnum(e)))
//@   ensures eq: old(bothNum(e) && (e.Op == BinOpLooseEq || e.Op == BinOpStrictEq)) ==> isBoolRes(result) && boolRes(result) == fp.eq(old(lnum(e)), old(rnum(e)))
//@   ensures ne: old(bothNum(e) && (e.Op == BinOpLooseNe || e.Op == BinOpStrictNe)) ==> isBoolRes(result) && boolRes(result) == !fp.eq(old(lnum(e)), old(rnum(e)))
//@   ensures slt: old(bothStr(e) && !bothNum(e) && e.Op == BinOpLt) ==> isBoolRes(result) && boolRes(result) == old(ucs2Lt(strVal(e.Left.Data), strVal(e.Right.Data)))
//@   ensures sgt: old(bothStr(e) && !bothNum(e) && e.Op == BinOpGt) ==> isBoolRes(result) && boolRes(result) == old(ucs2Lt(strVal(e.Right.Data), strVal(e.Left.Data)))
//@   ensures sle: old(bothStr(e) && !bothNum(e) && e.Op == BinOpLe) ==> isBoolRes(result) && boolRes(result) == !old(ucs2Lt(strVal(e.Right.Data), strVal(e.Left.Data)))
//@   ensures sge: old(bothStr(e) && !bothNum(e) && e.Op == BinOpGe) ==> isBoolRes(result) && boolRes(result) == !old(ucs2Lt(strVal(e.Left.Data), strVal(e.Right.Data)))
//@   ensures seq: old(bothStr(e) && !bothNum(e) && (e.Op == BinOpLooseEq || e.Op == BinOpStrictEq)) ==> isBoolRes(result) && boolRes(result) == old(ucs2Eq(strVal(e.Left.Data), strVal(e.Right.Data)))
//@   ensures sne: old(bothStr(e) && !bothNum(e) && (e.Op == BinOpLooseNe || e.Op == BinOpStrictNe)) ==> isBoolRes(result) && boolRes(result) == !old(ucs2Eq(strVal(e.Left.Data), strVal(e.Right.Data)))
// Number::exponentiate special cases (ECMA-262 6.1.6.1.3), rows 1-3, 8, 9
//@   ensures pow-nan-exponent: old(bothNum(e) && e.Op == BinOpPow) && fp.isNaN(old(rnum(e))) ==> isNumRes(result) && fp.isNaN(numRes(result))
//@   ensures pow-zero-exponent: old(bothNum(e) && e.Op == BinOpPow) && fp.isZero(old(rnum(e))) ==> isNumRes(result) && same(numRes(result), 1.0)
//@   ensures pow-nan-base: old(bothNum(e) && e.Op == BinOpPow) && fp.isNaN(old(lnum(e))) && !fp.isZero(old(rnum(e))) ==> isNumRes(result) && fp.isNaN(numRes(result))
//@   ensures pow-unit-base-inf-exponent: old(bothNum(e) && e.Op == BinOpPow) && fp.isInf(old(rnum(e))) && fp.eq(fp.abs(old(lnum(e))), 1.0) ==> isNumRes(result) && fp.isNaN(numRes(result))
//@   ensures pow-inf-exponent: old(bothNum(e) && e.Op == BinOpPow) && fp.isInf(old(rnum(e))) && !fp.isNaN(old(lnum(e))) && !fp.eq(fp.abs(old(lnum(e))), 1.0) ==> isNumRes(result) &&
//@       same(numRes(result), (fp.gt(fp.abs(old(lnum(e))), 1.0) == fp.isPos(old(rnum(e)))) ? fp.inf() : 0.0)

// ----------------------------------------------------------------------------------------------
// C09 (F11): "cached ASTs are immutable". Helpers that run after parsing has ended (they are called
// from the printer and the linker on ASTs shared with the incremental cache) may only write to
// objects they allocate themselves. The source says so in comments ("intentionally avoids mutating
// the input AST so it can be called after the AST has been frozen"); here it is a checked frame.
// The only dynamic call in these helpers is the isUnbound callback (a symbol-table lookup supplied by the
// parser/printer); it is assumed not to write the AST.
//@ pure-dynamic HelperContext.isUnbound

//@ func (HelperContext).SimplifyUnusedExpr
//@   prop C09
//@   opt frame-only
//@   opt scenario cached_ast_mutation
//@   modifies nothing

//@ func TryToInsertOptionalChain
//@   prop C09
//@   opt frame-only
//@   opt scenario cached_ast_mutation
//@   modifies nothing

//@ func InlinePrimitivesIntoTemplate
//@   prop C09
//@   opt frame-only
//@   opt frame-forbid js_ast_
//@   modifies nothing

//@ func MaybeSimplifyNot
//@   prop C09
//@   opt frame-only
//@   opt frame-forbid js_ast_
//@   modifies nothing

//@ func (HelperContext).SimplifyBooleanExpr
//@   prop C09
//@   opt frame-only
//@   opt frame-forbid js_ast_
//@   modifies nothing

// ----------------------------------------------------------------------------------------------
// C14 (F6): the minifier and the linker may *introduce* newer syntax only under a test that the target
// supports it. Each site below must be dominated by a branch that establishes !Has(feature).
//@ gate optional-chain C14: feature=compat.OptionalChain ; site=call TryToInsertOptionalChain ; in=js_ast,js_parser,js_printer,linker ; except=TryToInsertOptionalChain:recursion inside the helper (its callers are the gated sites)
//@ gate nullish-coalescing C14: feature=compat.NullishCoalescing ; site=call JoinWithLeftAssociativeOp arg0=js_ast.BinOpNullishCoalescing ; in=js_ast,js_parser,js_printer,linker ; except=(*binaryExprVisitor).visitRightAndFinish:re-associates an existing ?? expression (a ?? (b ?? c)) and introduces no new operator
//@ gate linker-arrow C14: feature=compat.Arrow ; site=alloc EArrow ; in=linker
