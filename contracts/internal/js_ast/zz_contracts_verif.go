//go:build verif

package js_ast

// ECMA-262 7.1.6 ToInt32: NaN, +-0, +-Infinity -> 0; otherwise truncate, reduce modulo 2^32,
// and read as a signed 32-bit value. For |f| >= 2^85 the double is a multiple of 2^33, hence 0.
//@ spec func jsToInt32(f float64) int32 =
//@     (fp.isNaN(f) || fp.isInf(f) || fp.geq(fp.abs(f), 0x1p85)) ? int32(0) : bv.as(int32, bv.extract(31, 0, fp.to_sbv(96, f)))

//@ func ToInt32
//@   arith bv
//@   prop C03 C06
//@   ensures spec: result == jsToInt32(f)

//@ func ToUint32
//@   arith bv
//@   prop C03 C06
//@   ensures spec: result == uint32(jsToInt32(f))
