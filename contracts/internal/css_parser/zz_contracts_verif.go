//go:build verif

package css_parser

// ----------------------------------------------------------------------------------------------
// C12: colour bit-arithmetic. Spec source: CSS Color 4 (a 3/4-digit hex colour doubles each nibble).

//@ spec func cssShortHex(c uint32) uint32 = ((c >> 12) & 15) * 0x11000000 + ((c >> 8) & 15) * 0x110000 + ((c >> 4) & 15) * 0x1100 + (c & 15) * 0x11

// expandHex is the CSS short-hex expansion on 16-bit inputs
//@ lemma expandHex_is_css_short_hex C12 bv: forall v uint32 :: v <= 0xFFFF ==> expandHex(v) == cssShortHex(v)
// a colour is only printed in compact form when expanding the compact form gives it back, and then the
// compact form has at most four hex digits (otherwise Sprintf("%04x") would print a different colour)
//@ lemma compactHex_roundtrip_width C12 bv: forall v uint32 :: expandHex(compactHex(v)) == v ==> compactHex(v) <= 0xFFFF && cssShortHex(compactHex(v)) == v
// the three-digit form is used when alpha is opaque: the compact value shifted by one nibble has three digits
//@ lemma compactHex_rgb_width C12 bv: forall v uint32 :: expandHex(compactHex(v)) == v ==> (compactHex(v) >> 4) <= 0xFFF

// component extraction inverts packing
//@ lemma hex_components C12 bv: forall r uint32, g uint32, b uint32, a uint32 :: r <= 255 && g <= 255 && b <= 255 && a <= 255 ==>
//@     hexR((r << 24) | (g << 16) | (b << 8) | a) == int(r) && hexG((r << 24) | (g << 16) | (b << 8) | a) == int(g) &&
//@     hexB((r << 24) | (g << 16) | (b << 8) | a) == int(b) && hexA((r << 24) | (g << 16) | (b << 8) | a) == int(a)

// every float (NaN and infinities included) is clamped to a byte
//@ func floatToByte
//@   arith bv
//@   prop C12
//@   ensures byte: result <= 255
//@   ensures exact: !fp.isNaN(f) && fp.geq(f, 0.0) && fp.leq(f, 1.0) ==> result == uint32(bv.as(int64, fp.to_sbv(64, fp.round(fp.mul(f, 255.0)))))

// ----------------------------------------------------------------------------------------------
// C12: box-shorthand collapsing may merge declarations only when a browser that accepts one of them
// accepts all of them. unitSafetyTracker abstracts the set of not-universally-supported units seen in a
// declaration: unitSafe = none, unitUnsafeSingle = exactly {t.unit}, unitUnsafeMixed = two different
// units or a value that is not a plain length. includeUnitOf must implement set insertion on that
// abstraction (spec source: the comment on unitSafetyTracker and the property's "a rule whose
// support differs between browsers is never merged with one that does not").
//@ import css_ast "github.com/evanw/esbuild/internal/css_ast"
//@ import css_lexer "github.com/evanw/esbuild/internal/css_lexer"
//@ spec func unsafeUnit(token css_ast.Token) bool = token.Kind == css_lexer.TDimension && !token.DimensionUnitIsSafeLength()
//@ spec func harmlessValue(token css_ast.Token) bool =
//@     token.Kind == css_lexer.TPercentage || (token.Kind == css_lexer.TNumber && token.Text == "0") ||
//@     (token.Kind == css_lexer.TDimension && token.DimensionUnitIsSafeLength())

//@ func (*unitSafetyTracker).includeUnitOf
//@   arith int
//@   prop C12
//@   modifies unitSafetyTracker.unit, unitSafetyTracker.status
//@   requires t != nil
//@   ensures monotone: t.status >= old(t.status) || t.status == unitUnsafeMixed
//@   ensures harmless: harmlessValue(token) ==> t.status == old(t.status) && t.unit == old(t.unit)
//@   ensures first-unit: unsafeUnit(token) && old(t.status) == unitSafe ==> t.status == unitUnsafeSingle && t.unit == token.DimensionUnit()
//@   ensures same-unit: unsafeUnit(token) && old(t.status) == unitUnsafeSingle && old(t.unit) == token.DimensionUnit() ==> t.status == unitUnsafeSingle && t.unit == old(t.unit)
//@   ensures other-unit: unsafeUnit(token) && old(t.status) == unitUnsafeSingle && old(t.unit) != token.DimensionUnit() ==> t.status == unitUnsafeMixed
//@   ensures mixed-sticks: old(t.status) == unitUnsafeMixed && !harmlessValue(token) ==> t.status == unitUnsafeMixed
//@   ensures not-a-length: !harmlessValue(token) && !unsafeUnit(token) ==> t.status == unitUnsafeMixed

// Two trackers are compatible only if they stand for the same set of units and neither is mixed.
//@ lemma isSafeWith_sound C12: forall a unitSafetyTracker, b unitSafetyTracker :: a.isSafeWith(b) ==>
//@     a.status == b.status && a.status != unitUnsafeMixed && (a.status == unitUnsafeSingle ==> a.unit == b.unit)

// ----------------------------------------------------------------------------------------------
// C12: calc() simplification. CSS Values and Units 4, 10.2 (type checking): "at a / sub-expression, check
// that the right side has type <number>". The minifier's own deviation ("divide instead of multiply if the
// reciprocal is shorter") creates Invert nodes; every Invert node it creates must therefore wrap a plain
// number, never a dimension or percentage.
//@ func (*calcProduct).partiallySimplify
//@   arith int
//@   prop C12
//@   opt scenario calc_reciprocal_dimension
//@   site invert-only-plain-numbers: store calcTermWithOp.data new calcInvert requires
//@       is(value.(*calcInvert).term.data, *calcNumeric) && value.(*calcInvert).term.data.(*calcNumeric).unit == ""

// ----------------------------------------------------------------------------------------------
// C16 (zero-annotation safety sweep): for ALL arguments (no precondition), no index, slice, nil-dereference,
// division or conversion in the body of these functions can panic. Loop counters that start at a constant and are
// only incremented get their lower bound as an automatic invariant (`opt auto-counters`); nothing else is assumed.
// Calls are replaced by contracts, inlined, or havocked: a panic inside a callee without a contract is not covered.
//@ func shiftDot
//@   arith int
//@   nooverflow off
//@   safety
//@   opt auto-counters 1
//@   prop C16

//@ func mangleNumber
//@   arith int
//@   nooverflow off
//@   safety
//@   opt auto-counters 1
//@   prop C16


// C12 (CSS Color 4, 4.2.1): a percentage colour channel p% denotes p x 255 / 100. The value handed to the rounding
// must be computed in that order: scaling by the pre-rounded constant 255/100 = 2.55 makes 50% come out as
// 127.49999999999999 -> 127 (#7f) where the number form 127.5 gives 128 (#80).
//@ flow percent-channel-scaling C12: func=parseColorByte ; in=css_parser ; site=call Round ; scenario=percent_channel_rounding ; argpath=0:*#0*255/100 OR *#0*scale

// C12 (nesting expansion): a conditional group rule (@media, @supports, @layer, ... inside a style rule) does not change
// what `&` stands for: the context handed to its children carries the parent selector lists unchanged, each list copied
// from the list of the same name (the "with pseudo" list is the one that keeps :is()-less pseudo-element selectors
// apart; swapping it for the other list silently merges or drops them).
//@ flow nested-group-rules-keep-the-parent-selectors.with C12: func=(*parser).lowerNestingInRuleWithContext ; in=css_parser ; site=store lowerNestingContext.parentSelectorsWithPseudo ; valuepath=context.parentSelectorsWithPseudo
//@ flow nested-group-rules-keep-the-parent-selectors.no C12: func=(*parser).lowerNestingInRuleWithContext ; in=css_parser ; site=store lowerNestingContext.parentSelectorsNoPseudo ; valuepath=context.parentSelectorsNoPseudo

// C12 ("rule merging ... never change what is rendered"): mangleRules merges a style rule into the PREVIOUS one when
// their bodies are equal, which is only sound for ADJACENT rules (nothing in between can then win over one but not the
// other). `prevNonComment` is its record of the previous rule: whenever rules are appended to the output the record must
// be re-established before the loop continues, or the next rule is merged across everything that was just appended.
//@ flow merge-candidate-follows-every-append C12: func=(*parser).mangleRules ; in=css_parser ; site=builtin append ; when-arg=0:*mangledRules* ; scenario=media_unwrap_merge ; then-updates=prevNonComment
