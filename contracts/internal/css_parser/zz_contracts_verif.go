//go:build verif

package css_parser

// ----------------------------------------------------------------------------------------------
// C12: colour bit-arithmetic. Spec source: CSS Color 4 (a 3/4-digit hex colour doubles each nibble).

//@ spec func cssShortHex(c uint32) uint32 = ((c >> 12) & 15) * 0x11000000 + ((c >> 8) & 15) * 0x110000 + ((c >> 4) & 15) * 0x1100 + (c & 15) * 0x11

// expandHex is the CSS short-hex expansion on 16-bit inputs
//@ lemma expandHex_is_css_short_hex C12 bv: forall v uint32 :: v <= 0xFFFF ==> expandHex(v) == cssShortHex(v)
// a colour is only printed in compact form when expanding the compact form gives it back, and then the
// compact form has at most four hex digits (otherwise Sprintf("%04x") would print a different colour)
//@ lemma compactHex_roundtrip_width C12 bv: forall v uint32 :: expandHex(compactHex(v)) == v ==> compactHex(v) <= 0xFFFF && cssShortHex(compactHex(v)) == v
// the three-digit form is used when alpha is opaque: the compact value shifted by one nibble has three digits
//@ lemma compactHex_rgb_width C12 bv: forall v uint32 :: expandHex(compactHex(v)) == v ==> (compactHex(v) >> 4) <= 0xFFF

// component extraction inverts packing
//@ lemma hex_components C12 bv: forall r uint32, g uint32, b uint32, a uint32 :: r <= 255 && g <= 255 && b <= 255 && a <= 255 ==>
//@     hexR((r << 24) | (g << 16) | (b << 8) | a) == int(r) && hexG((r << 24) | (g << 16) | (b << 8) | a) == int(g) &&
//@     hexB((r << 24) | (g << 16) | (b << 8) | a) == int(b) && hexA((r << 24) | (g << 16) | (b << 8) | a) == int(a)

// every float (NaN and infinities included) is clamped to a byte
//@ func floatToByte
//@   arith bv
//@   prop C12
//@   ensures byte: result <= 255
//@   ensures exact: !fp.isNaN(f) && fp.geq(f, 0.0) && fp.leq(f, 1.0) ==> result == uint32(bv.as(int64, fp.to_sbv(64, fp.round(fp.mul(f, 255.0)))))
