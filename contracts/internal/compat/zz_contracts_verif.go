//go:build verif

package compat

// ----------------------------------------------------------------------------------------------
// C14: feature-set algebra. "`supported` overrides are honoured in both directions": wherever the
// mask is set the result carries the override, elsewhere the computed feature bit.

//@ func (JSFeature).ApplyOverrides
//@   arith bv
//@   prop C14
//@   ensures masked: (result & mask) == (overrides & mask)
//@   ensures unmasked: (result & ^mask) == (features & ^mask)

//@ func (CSSFeature).ApplyOverrides
//@   arith bv
//@   prop C14
//@   ensures masked: (result & mask) == (overrides & mask)
//@   ensures unmasked: (result & ^mask) == (features & ^mask)

//@ func (JSFeature).Has
//@   arith bv
//@   opt pure
//@   prop C14
//@   ensures bit: result <==> (features & feature) != 0

//@ func (CSSFeature).Has
//@   arith bv
//@   prop C14
//@   ensures bit: result <==> (features & feature) != 0

// Version comparison: sign of the lexicographic order on (major, minor, patch) with missing parts
// of the target version read as 0, and a pre-release target sorting below the plain version.
//@ spec func part(b Semver, k int) int = k < len(b.Parts) ? b.Parts[k] : 0
//@ spec func partsSmall(b Semver) bool = forall k int :: 0 <= k && k < len(b.Parts) ==> 0 <= b.Parts[k] && b.Parts[k] < 2147483648
//@ spec func verLt(a v, b Semver) bool = int(a.major) < part(b, 0) || (int(a.major) == part(b, 0) &&
//@     (int(a.minor) < part(b, 1) || (int(a.minor) == part(b, 1) && int(a.patch) < part(b, 2))))
//@ spec func verEq(a v, b Semver) bool = int(a.major) == part(b, 0) && int(a.minor) == part(b, 1) && int(a.patch) == part(b, 2)

//@ func compareVersions
//@   arith int
//@   safety
//@   prop C14 C16
//@   opt transparent partsSmall
//@   requires partsSmall(b)
//@   modifies nothing
//@   ensures lt: result < 0 <==> verLt(a, b)
//@   ensures eq: result == 0 <==> (verEq(a, b) && len(b.PreRelease) == 0)

// A version is supported iff it lies in one of the half-open ranges [start, end), end = 0.0.0 meaning unbounded.
//@ spec func inRange(r versionRange, version Semver) bool = (verLt(r.start, version) || (verEq(r.start, version) && len(version.PreRelease) == 0)) &&
//@     ((r.end.major == 0 && r.end.minor == 0 && r.end.patch == 0) || !(verLt(r.end, version) || (verEq(r.end, version) && len(version.PreRelease) == 0)))

//@ func isVersionSupported
//@   arith int
//@   safety
//@   prop C14 C16
//@   requires partsSmall(version)
//@   ensures iff: result <==> (exists k int :: 0 <= k && k < len(ranges) && inRange(ranges[k], version))
//@   loop 0 invariant forall k int :: 0 <= k && k <= rangeindex ==> !inRange(ranges[k], version)
//@   loop 0 invariant -1 <= rangeindex && rangeindex < len(ranges) || (len(ranges) == 0 && rangeindex == -1)
//@   loop 0 decreases len(ranges) - rangeindex
