//go:build verif

package linker

// ----------------------------------------------------------------------------------------------
// C08 (F4): every comparator whose input order can depend on map iteration or goroutine arrival
// is a strict order (asymmetric, transitive) whose ties agree on every compared key, so the sorted
// result is a function of the set of elements (given distinct keys, established where they are built).

//@ lemma crossChunkImportArray_Less_asymmetric C08: forall a crossChunkImportArray, i int, j int ::
//@     0 <= i && i < len(a) && 0 <= j && j < len(a) ==> !(a.Less(i, j) && a.Less(j, i))
//@ lemma crossChunkImportArray_Less_transitive C08: forall a crossChunkImportArray, i int, j int, k int ::
//@     0 <= i && i < len(a) && 0 <= j && j < len(a) && 0 <= k && k < len(a) && a.Less(i, j) && a.Less(j, k) ==> a.Less(i, k)
//@ lemma crossChunkImportArray_Less_total C08: forall a crossChunkImportArray, i int, j int ::
//@     0 <= i && i < len(a) && 0 <= j && j < len(a) && !a.Less(i, j) && !a.Less(j, i) ==> a[i].chunkIndex == a[j].chunkIndex

//@ lemma crossChunkImportItemArray_Less_asymmetric C08: forall a crossChunkImportItemArray, i int, j int ::
//@     0 <= i && i < len(a) && 0 <= j && j < len(a) ==> !(a.Less(i, j) && a.Less(j, i))
//@ lemma crossChunkImportItemArray_Less_transitive C08: forall a crossChunkImportItemArray, i int, j int, k int ::
//@     0 <= i && i < len(a) && 0 <= j && j < len(a) && 0 <= k && k < len(a) && a.Less(i, j) && a.Less(j, k) ==> a.Less(i, k)
//@ lemma crossChunkImportItemArray_Less_total C08: forall a crossChunkImportItemArray, i int, j int ::
//@     0 <= i && i < len(a) && 0 <= j && j < len(a) && !a.Less(i, j) && !a.Less(j, i) ==> a[i].exportAlias == a[j].exportAlias

//@ lemma stableRefArray_Less_asymmetric C08: forall a stableRefArray, i int, j int ::
//@     0 <= i && i < len(a) && 0 <= j && j < len(a) ==> !(a.Less(i, j) && a.Less(j, i))
//@ lemma stableRefArray_Less_transitive C08: forall a stableRefArray, i int, j int, k int ::
//@     0 <= i && i < len(a) && 0 <= j && j < len(a) && 0 <= k && k < len(a) && a.Less(i, j) && a.Less(j, k) ==> a.Less(i, k)
//@ lemma stableRefArray_Less_total C08: forall a stableRefArray, i int, j int ::
//@     0 <= i && i < len(a) && 0 <= j && j < len(a) && !a.Less(i, j) && !a.Less(j, i) ==> a[i].StableSourceIndex == a[j].StableSourceIndex && a[i].Ref.InnerIndex == a[j].Ref.InnerIndex

//@ lemma chunkOrderArray_Less_asymmetric C08: forall a chunkOrderArray, i int, j int ::
//@     0 <= i && i < len(a) && 0 <= j && j < len(a) ==> !(a.Less(i, j) && a.Less(j, i))
//@ lemma chunkOrderArray_Less_transitive C08: forall a chunkOrderArray, i int, j int, k int ::
//@     0 <= i && i < len(a) && 0 <= j && j < len(a) && 0 <= k && k < len(a) && a.Less(i, j) && a.Less(j, k) ==> a.Less(i, k)
//@ lemma chunkOrderArray_Less_total C08: forall a chunkOrderArray, i int, j int ::
//@     0 <= i && i < len(a) && 0 <= j && j < len(a) && !a.Less(i, j) && !a.Less(j, i) ==> a[i].distance == a[j].distance && a[i].tieBreaker == a[j].tieBreaker


// ----------------------------------------------------------------------------------------------
// C09 (F11): the linker works on shallow clones of the cached ASTs; a statement node reached from
// the (cloned) statement list still belongs to the cache. mergeAdjacentLocalStmts may therefore
// extend the declaration list of an SLocal only if that SLocal is the private clone it created.
//@ func mergeAdjacentLocalStmts
//@   arith int
//@   prop C09
//@   site own-node: store SLocal.Decls requires fresh(target)
//@   loop 0 invariant 1 <= end && end <= len(stmts) && end <= rangeindex + 2
//@   loop 0 invariant didMergeWithPreviousLocal ==> is(stmts[end-1].Data, *js_ast.SLocal) && fresh(stmts[end-1].Data.(*js_ast.SLocal))

// ----------------------------------------------------------------------------------------------
// C18: "two files emitted under the same path have identical bytes": the content hash must cover every
// field the final bytes of a chunk depend on.
//  - generateIsolatedHash: the bytes between placeholders (outputPiece.data), the part ranges, the output
//    path template, the public path and the linked legal comments reach the digest, length-prefixed where
//    boundaries matter; and WHICH chunk or asset each placeholder stands for (outputPiece.kind / .index).
//  - appendIsolatedHashesForImportedChunks: every cross-chunk import (static or dynamic) is visited
//    unconditionally, the asset path mixed into the hash is the path relative to the output directory (the
//    text that ends up in the file), and the chunk's own isolated hash is always mixed in.
//@ hashed isolated-hash C18: func=(*linkerContext).generateIsolatedHash ; in=linker ; sink=hashWriteLengthPrefixed:1,hashWriteUint32:1,Write:0 ; scenario=hash_placeholder_targets ; must=outputPiece.data>hashWriteLengthPrefixed,partRange.partIndexBegin,partRange.partIndexEnd,partRange.sourceIndex,PathTemplate.Data>hashWriteLengthPrefixed,Options.PublicPath>hashWriteLengthPrefixed,outputPiece.kind,outputPiece.index
//@ hashed legal-comments C18: func=(*linkerContext).generateIsolatedHash ; in=linker ; sink=hashWriteLengthPrefixed:1,hashWriteUint32:1,Write:0 ; scenario=legal_comments_hash ; must=chunkInfo.externalLegalComments>hashWriteLengthPrefixed
//@ unguarded visit-every-import C18: func=(*linkerContext).appendIsolatedHashesForImportedChunks ; in=linker ; site=call appendIsolatedHashesForImportedChunks ; allow=false:visited[chunkIndex]==visitedKey ; argpath=2:c.chunks[chunkIndex].crossChunkImports[*].chunkIndex
//@ flow asset-path-is-relative C18: func=(*linkerContext).appendIsolatedHashesForImportedChunks ; in=linker ; site=call hashWriteLengthPrefixed ; argpath=1:call ReplaceAll(call Rel(c.fs,c.options.AbsOutputDir,*.InputFile.AdditionalFiles[*].AbsPath)#0,*

// ----------------------------------------------------------------------------------------------
// C19: the metafile's byte counts are the lengths of what is actually emitted.
//  - the "bytes" of a chunk is len() of the very value that becomes the output file's contents (computed
//    after the source-map comment has been appended);
//  - bytesInOutput is computed with paths relative to the importing chunk's own directory, exactly like the
//    substitution that produces the final text.
//@ flow chunk-bytes-is-final-length C19: func=(*linkerContext).generateChunksInParallel ; in=linker ; site=dyncall jsonMetadataChunkCallback ; argpath=0:call len(call Done(outputContentsJoiner))
//@ flow chunk-contents-is-final-output C19: func=(*linkerContext).generateChunksInParallel ; in=linker ; site=store OutputFile.Contents ; valuepath=call Done(outputContentsJoiner)|phi:outputSourceMap|*outputSourceMap*|*externalLegalComments*
//@ flow count-relative-to-own-dir C19: func=(*linkerContext).accurateFinalByteCount ; in=linker ; site=call pathBetweenChunks ; argpath=1:chunkFinalRelDir
