//go:build verif

package linker

// ----------------------------------------------------------------------------------------------
// C08 (F4): every comparator whose input order can depend on map iteration or goroutine arrival
// is a strict order (asymmetric, transitive) whose ties agree on every compared key, so the sorted
// result is a function of the set of elements (given distinct keys, established where they are built).

//@ lemma crossChunkImportArray_Less_asymmetric C08: forall a crossChunkImportArray, i int, j int ::
//@     0 <= i && i < len(a) && 0 <= j && j < len(a) ==> !(a.Less(i, j) && a.Less(j, i))
//@ lemma crossChunkImportArray_Less_transitive C08: forall a crossChunkImportArray, i int, j int, k int ::
//@     0 <= i && i < len(a) && 0 <= j && j < len(a) && 0 <= k && k < len(a) && a.Less(i, j) && a.Less(j, k) ==> a.Less(i, k)
//@ lemma crossChunkImportArray_Less_total C08: forall a crossChunkImportArray, i int, j int ::
//@     0 <= i && i < len(a) && 0 <= j && j < len(a) && !a.Less(i, j) && !a.Less(j, i) ==> a[i].chunkIndex == a[j].chunkIndex

//@ lemma crossChunkImportItemArray_Less_asymmetric C08: forall a crossChunkImportItemArray, i int, j int ::
//@     0 <= i && i < len(a) && 0 <= j && j < len(a) ==> !(a.Less(i, j) && a.Less(j, i))
//@ lemma crossChunkImportItemArray_Less_transitive C08: forall a crossChunkImportItemArray, i int, j int, k int ::
//@     0 <= i && i < len(a) && 0 <= j && j < len(a) && 0 <= k && k < len(a) && a.Less(i, j) && a.Less(j, k) ==> a.Less(i, k)
//@ lemma crossChunkImportItemArray_Less_total C08: forall a crossChunkImportItemArray, i int, j int ::
//@     0 <= i && i < len(a) && 0 <= j && j < len(a) && !a.Less(i, j) && !a.Less(j, i) ==> a[i].exportAlias == a[j].exportAlias

//@ lemma stableRefArray_Less_asymmetric C08: forall a stableRefArray, i int, j int ::
//@     0 <= i && i < len(a) && 0 <= j && j < len(a) ==> !(a.Less(i, j) && a.Less(j, i))
//@ lemma stableRefArray_Less_transitive C08: forall a stableRefArray, i int, j int, k int ::
//@     0 <= i && i < len(a) && 0 <= j && j < len(a) && 0 <= k && k < len(a) && a.Less(i, j) && a.Less(j, k) ==> a.Less(i, k)
//@ lemma stableRefArray_Less_total C08: forall a stableRefArray, i int, j int ::
//@     0 <= i && i < len(a) && 0 <= j && j < len(a) && !a.Less(i, j) && !a.Less(j, i) ==> a[i].StableSourceIndex == a[j].StableSourceIndex && a[i].Ref.InnerIndex == a[j].Ref.InnerIndex

//@ lemma chunkOrderArray_Less_asymmetric C08: forall a chunkOrderArray, i int, j int ::
//@     0 <= i && i < len(a) && 0 <= j && j < len(a) ==> !(a.Less(i, j) && a.Less(j, i))
//@ lemma chunkOrderArray_Less_transitive C08: forall a chunkOrderArray, i int, j int, k int ::
//@     0 <= i && i < len(a) && 0 <= j && j < len(a) && 0 <= k && k < len(a) && a.Less(i, j) && a.Less(j, k) ==> a.Less(i, k)
//@ lemma chunkOrderArray_Less_total C08: forall a chunkOrderArray, i int, j int ::
//@     0 <= i && i < len(a) && 0 <= j && j < len(a) && !a.Less(i, j) && !a.Less(j, i) ==> a[i].distance == a[j].distance && a[i].tieBreaker == a[j].tieBreaker


// ----------------------------------------------------------------------------------------------
// C09 (F11): the linker works on shallow clones of the cached ASTs; a statement node reached from
// the (cloned) statement list still belongs to the cache. mergeAdjacentLocalStmts may therefore
// extend the declaration list of an SLocal only if that SLocal is the private clone it created.
//@ func mergeAdjacentLocalStmts
//@   arith int
//@   prop C09
//@   site own-node: store SLocal.Decls requires fresh(target)
//@   loop 0 invariant 1 <= end && end <= len(stmts) && end <= rangeindex + 2
//@   loop 0 invariant didMergeWithPreviousLocal ==> is(stmts[end-1].Data, *js_ast.SLocal) && fresh(stmts[end-1].Data.(*js_ast.SLocal))
