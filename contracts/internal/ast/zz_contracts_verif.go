//go:build verif

package ast

// ----------------------------------------------------------------------------------------------
// C08 (F4): every comparator whose input order can depend on map iteration or goroutine arrival
// is a strict order (asymmetric, transitive) whose ties agree on every compared key, so the sorted
// result is a function of the set of elements (given distinct keys, established where they are built).

//@ lemma charAndCountArray_Less_asymmetric C08: forall a charAndCountArray, i int, j int ::
//@     0 <= i && i < len(a) && 0 <= j && j < len(a) ==> !(a.Less(i, j) && a.Less(j, i))
//@ lemma charAndCountArray_Less_transitive C08: forall a charAndCountArray, i int, j int, k int ::
//@     0 <= i && i < len(a) && 0 <= j && j < len(a) && 0 <= k && k < len(a) && a.Less(i, j) && a.Less(j, k) ==> a.Less(i, k)
//@ lemma charAndCountArray_Less_total C08: forall a charAndCountArray, i int, j int ::
//@     0 <= i && i < len(a) && 0 <= j && j < len(a) && !a.Less(i, j) && !a.Less(j, i) ==> a[i].count == a[j].count && a[i].index == a[j].index


// ----------------------------------------------------------------------------------------------
// C02: symbol link chains. Imports are bound to exports (and merged declarations unified) by linking one
// symbol to another; every later phase (renaming, printing, cross-chunk wiring) identifies a symbol with
// the END of its chain, FollowSymbols(ref). FollowSymbols also compresses the path it walks, so the claim
// "a symbol's canonical representative never changes behind the linker's back" is a statement about a
// heap-mutating recursive function. Specification (union-find `find`):
//   symRoot(ref)   - the end of ref's chain in a given heap (recursive spec function)
//   symRank(q)     - ghost well-founded measure witnessing that chains are acyclic: every link goes to a
//                    strictly smaller rank (precondition; established where links are created)
// Contract: the result is the old root and is a root; the only writes are to Symbol.Link, and EVERY
// symbol's new link is either its old link or its old root (pointwise) - so by induction on the rank
// every symbol keeps its root; roots stay roots; the rank invariant is preserved.
//@ spec func symPtr(symbols SymbolMap, ref Ref) *Symbol = elemptr(symbols.SymbolsForSource[ref.SourceIndex], int(ref.InnerIndex))
//@ constglobal ast.InvalidRef
//@ spec func isInvalidRef(ref Ref) bool = ref == InvalidRef
//@ spec rec func symRoot(symbols SymbolMap, ref Ref) Ref =
//@     isInvalidRef(symPtr(symbols, ref).Link) ? ref : symRoot(symbols, symPtr(symbols, ref).Link)
//@ spec func symRank(q *Symbol) int
//@ spec func ranked(symbols SymbolMap) bool =
//@     forall q *Symbol :: !isInvalidRef(q.Link) ==> symRank(symPtr(symbols, q.Link)) < symRank(q)

//@ func FollowSymbols
//@   arith int
//@   prop C02
//@   opt transparent ranked
//@   opt unfold symRoot
//@   modifies Symbol.Link
//@   requires ranked(symbols)
//@   ensures result-is-old-root: result == old(symRoot(symbols, ref))
//@   ensures result-is-a-root: isInvalidRef(symPtr(symbols, result).Link)
//@   ensures rank-not-increased: symRank(symPtr(symbols, result)) <= symRank(symPtr(symbols, ref))
//@   ensures links-only-to-old-roots: forall q *Symbol :: q.Link == old(q.Link) || (!isInvalidRef(old(q.Link)) && q.Link == old(symRoot(symbols, q.Link)))
//@   ensures roots-stay-roots: forall q *Symbol :: isInvalidRef(old(q.Link)) ==> isInvalidRef(q.Link)
//@   ensures still-ranked: ranked(symbols)

// MergeContentsWith: the surviving symbol inherits the pins of the merged one (C15: a name that must not be
// renamed, or must be capitalised for JSX, stays so after two symbols are unified).
//@ func (*Symbol).MergeContentsWith
//@   arith int
//@   nooverflow
//@   prop C02 C15
//@   modifies Symbol.UseCountEstimate, Symbol.Flags, Symbol.OriginalName
//@   requires newSymbol != nil && oldSymbol != nil
//@   ensures pin-inherited: old(oldSymbol.Flags.Has(MustNotBeRenamed)) ==> newSymbol.Flags.Has(MustNotBeRenamed)
//@   ensures pin-kept: old(newSymbol.Flags.Has(MustNotBeRenamed)) ==> newSymbol.Flags.Has(MustNotBeRenamed) && newSymbol.OriginalName == old(newSymbol.OriginalName)
//@   ensures pinned-name: old(oldSymbol.Flags.Has(MustNotBeRenamed)) && !old(newSymbol.Flags.Has(MustNotBeRenamed)) ==> newSymbol.OriginalName == old(oldSymbol.OriginalName)
//@   ensures jsx-inherited: old(oldSymbol.Flags.Has(MustStartWithCapitalLetterForJSX)) || old(newSymbol.Flags.Has(MustStartWithCapitalLetterForJSX)) ==> newSymbol.Flags.Has(MustStartWithCapitalLetterForJSX)
//@   ensures no-pin-invented: newSymbol.Flags.Has(MustNotBeRenamed) ==> old(newSymbol.Flags.Has(MustNotBeRenamed)) || old(oldSymbol.Flags.Has(MustNotBeRenamed))

// MergeSymbols (union): every link that changes now points at a symbol of `new`'s old class, the result is in
// that class, roots other than the old root of `old` stay roots, and nothing outside the two classes moves.
//@ func MergeSymbols
//@   arith int
//@   prop C02
//@   opt transparent ranked
//@   opt unfold symRoot
//@   modifies Symbol.Link, Symbol.UseCountEstimate, Symbol.Flags, Symbol.OriginalName
//@   requires ranked(symbols)
//@   ensures result-in-new-class: old(symRoot(symbols, now(result))) == old(symRoot(symbols, new))
//@   ensures links-only-into-new-class: forall q *Symbol :: q.Link == old(q.Link) || old(symRoot(symbols, now(q.Link))) == old(symRoot(symbols, new))
//@   ensures only-old-root-linked: forall q *Symbol :: isInvalidRef(old(q.Link)) && !isInvalidRef(q.Link) ==> q == old(symPtr(symbols, symRoot(symbols, old)))
//@   ensures only-two-classes-touched: forall q *Symbol :: !isInvalidRef(old(q.Link)) && q.Link != old(q.Link) ==>
//@       old(symRoot(symbols, q.Link)) == old(symRoot(symbols, old)) || old(symRoot(symbols, q.Link)) == old(symRoot(symbols, new))

// C15: slot counters are combined with a pointwise maximum.
//@ func (*SlotCounts).UnionMax
//@   arith int
//@   prop C15
//@   requires a != nil
//@   ensures pointwise-max: forall k int :: 0 <= k && k < 4 ==> a[k] == (old(a[k]) >= b[k] ? old(a[k]) : b[k])
//@   ensures other-counters-untouched: forall q *SlotCounts, k int :: q != a && !fresh(q) && 0 <= k && k < 4 ==> q[k] == old(q[k])
//@   loop 0 invariant forall q *SlotCounts, k int :: q != a && !fresh(q) && 0 <= k && k < 4 ==> q[k] == old(q[k])
//@   loop 0 invariant forall k int :: 0 <= k && k <= rangeindex ==> a[k] == (old(a[k]) >= b[k] ? old(a[k]) : b[k])
//@   loop 0 invariant forall k int :: rangeindex < k && k < 4 ==> a[k] == old(a[k])
//@   loop 0 invariant forall k int :: 0 <= k && k < 4 ==> b[k] == entry(b)[k]
