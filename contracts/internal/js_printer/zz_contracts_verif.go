//go:build verif

package js_printer

// ----------------------------------------------------------------------------------------------
// C09 (F11): printing runs on ASTs that are shared with the incremental cache (and, for files linked
// into several entry points, printed concurrently). The printer may therefore write only to objects it
// allocates itself: no store into a pre-existing js_ast / ast node anywhere below Print.
// Callback fields handed to the printer by the linker (lookups); assumed not to write the AST.
//@ pure-dynamic Options.RequireOrImportMetaForSource

//@ func Print
//@   prop C09
//@   opt frame-only
//@   opt frame-forbid js_ast_
//@   modifies nothing
