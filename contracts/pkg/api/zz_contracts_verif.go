//go:build verif

package api

// ----------------------------------------------------------------------------------------------
// C08 (F4): every comparator whose input order can depend on map iteration or goroutine arrival
// is a strict order (asymmetric, transitive) whose ties agree on every compared key, so the sorted
// result is a function of the set of elements (given distinct keys, established where they are built).

//@ lemma metafileArray_Less_asymmetric C08: forall a metafileArray, i int, j int ::
//@     0 <= i && i < len(a) && 0 <= j && j < len(a) ==> !(a.Less(i, j) && a.Less(j, i))
//@ lemma metafileArray_Less_transitive C08: forall a metafileArray, i int, j int, k int ::
//@     0 <= i && i < len(a) && 0 <= j && j < len(a) && 0 <= k && k < len(a) && a.Less(i, j) && a.Less(j, k) ==> a.Less(i, k)
//@ lemma metafileArray_Less_total C08: forall a metafileArray, i int, j int ::
//@     0 <= i && i < len(a) && 0 <= j && j < len(a) && !a.Less(i, j) && !a.Less(j, i) ==> a[i].size == a[j].size && a[i].name == a[j].name

