//go:build verif

package cli

// ----------------------------------------------------------------------------------------------
// C16 (zero-annotation safety sweep): for ALL arguments (no precondition), no index, slice, nil-dereference,
// division or conversion in the body of these functions can panic. Loop counters that start at a constant and are
// only incremented get their lower bound as an automatic invariant (`opt auto-counters`); nothing else is assumed.
// Calls are replaced by contracts, inlined, or havocked: a panic inside a callee without a contract is not covered.
//@ func parseBoolFlag
//@   arith int
//@   nooverflow off
//@   safety
//@   opt auto-counters 1
//@   prop C16

//@ func parseLogLevel
//@   arith int
//@   nooverflow off
//@   safety
//@   opt auto-counters 1
//@   prop C16

//@ func parseLogStyle
//@   arith int
//@   nooverflow off
//@   safety
//@   opt auto-counters 1
//@   prop C16

