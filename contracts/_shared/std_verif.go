//go:build verif

// Contracts ASSUMED for the Go standard library (trusted: the bodies are not verified). Every
// clause here is an assumption: it is echoed in the evidence of each check that uses it and is
// sampled against the real library by the thorough tier.
package shared

// math.Mod(x, 2^32) for finite non-negative x is the exact truncated remainder. A double >= 2^85
// is a multiple of 2^33, so its remainder is 0; below that the integer part fits in 96 bits.
//@ func math.Mod
//@   trusted
//@   opt pure
//@   ensures !fp.isNaN(x) && !fp.isInf(x) && !fp.isNeg(x) && same(y, 4294967296.0) ==>
//@           same(result, fp.geq(x, 0x1p85) ? 0.0 : bv.to_fp(bv.extract(31, 0, fp.to_ubv(96, x))))
