//go:build verif

// Contracts ASSUMED for the Go standard library (trusted: the bodies are not verified). Every
// clause here is an assumption: it is echoed in the evidence of each check that uses it and is
// sampled against the real library by the thorough tier.
package shared

// math.Mod(x, 2^32) for finite non-negative x is the exact truncated remainder. A double >= 2^85
// is a multiple of 2^33, so its remainder is 0; below that the integer part fits in 96 bits.
//@ func math.Mod
//@   trusted
//@   opt pure
//@   ensures !fp.isNaN(x) && !fp.isInf(x) && !fp.isNeg(x) && same(y, 4294967296.0) ==>
//@           same(result, fp.geq(x, 0x1p85) ? 0.0 : bv.to_fp(bv.extract(31, 0, fp.to_ubv(96, x))))

// math.Pow: the special cases documented in package math (in the precedence order of its implementation).
//@ func math.Pow
//@   trusted
//@   opt pure
//@   ensures fp.isZero(y) || fp.eq(x, 1.0) ==> same(result, 1.0)
//@   ensures !fp.isZero(y) && !fp.eq(x, 1.0) && (fp.isNaN(x) || fp.isNaN(y)) ==> fp.isNaN(result)
//@   ensures fp.isInf(y) && fp.eq(x, -1.0) ==> same(result, 1.0)
//@   ensures fp.isInf(y) && !fp.isNaN(x) && !fp.isZero(x) && !fp.eq(fp.abs(x), 1.0) ==>
//@           same(result, (fp.gt(fp.abs(x), 1.0) == fp.isPos(y)) ? fp.inf() : 0.0)
//@   ensures fp.isInf(y) && fp.isZero(x) ==> same(result, fp.isPos(y) ? 0.0 : fp.inf())

// strings.IndexByte: index of the first occurrence, or -1
//@ func strings.IndexByte
//@   trusted
//@   opt pure
//@   ensures result == -1 || (0 <= result && result < len(s) && s[result] == c)
//@   ensures result == -1 ==> (forall k int :: 0 <= k && k < len(s) ==> s[k] != c)
//@   ensures result >= 0 ==> (forall k int :: 0 <= k && k < result ==> s[k] != c)

// utf8.EncodeRune writes 1 to 4 bytes into p
//@ func unicode/utf8.EncodeRune
//@   trusted
//@   modifies E|uint8
//@   ensures 1 <= result && result <= 4
//@   ensures r >= 128 ==> (forall k int :: 0 <= k && k < result ==> p[k] >= 128)
//@   ensures 0 <= r && r < 128 ==> result == 1 && int32(p[0]) == r

// utf8.DecodeRuneInString: width and the ASCII fast path (an ASCII first byte decodes to itself; a non-ASCII
// first byte never decodes to an ASCII code point).
//@ func unicode/utf8.DecodeRuneInString
//@   trusted
//@   opt pure
//@   ensures len(s) == 0 ==> result0 == 65533 && result1 == 0
//@   ensures len(s) > 0 ==> 1 <= result1 && result1 <= 4 && result1 <= len(s)
//@   ensures len(s) > 0 && s[0] < 128 ==> result0 == int32(s[0]) && result1 == 1
//@   ensures len(s) > 0 && s[0] >= 128 ==> result0 >= 128 && result0 <= 1114111
//@   ensures result1 > 1 ==> (forall k int :: 0 < k && k < result1 ==> s[k] >= 128)

// utf8.DecodeLastRuneInString: width of the last rune and the ASCII fast path
//@ func unicode/utf8.DecodeLastRuneInString
//@   trusted
//@   opt pure
//@   ensures len(s) == 0 ==> result0 == 65533 && result1 == 0
//@   ensures len(s) > 0 ==> 1 <= result1 && result1 <= 4 && result1 <= len(s)
//@   ensures len(s) > 0 && s[len(s)-1] < 128 ==> result0 == int32(s[len(s)-1]) && result1 == 1
//@   ensures len(s) > 0 && s[len(s)-1] >= 128 ==> result0 >= 128 && result0 <= 1114111

// strings.LastIndexByte: index of the last occurrence, or -1
//@ func strings.LastIndexByte
//@   trusted
//@   opt pure
//@   ensures result == -1 || (0 <= result && result < len(s) && s[result] == c)
//@   ensures result == -1 ==> (forall k int :: 0 <= k && k < len(s) ==> s[k] != c)
//@   ensures result >= 0 ==> (forall k int :: result < k && k < len(s) ==> s[k] != c)
