#!/usr/bin/env python3
# Rewrites the obligation-count column of the DESIGN.md 9.2 table from obligations/<id>.json and known_findings.txt.
import json,re,os
p='/verif/DESIGN.md'; s=open(p).read()
kf={}
for l in open('/verif/known_findings.txt'):
    m=re.match(r'finding: property=(C\d\d) ',l)
    if m: kf[m.group(1)]=kf.get(m.group(1),0)+1
def cnt(i):
    f=f'/verif/obligations/{i}.json'
    return len(json.load(open(f))) if os.path.exists(f) else 0
out=[]
inside=False
for line in s.split('\n'):
    if line.startswith('### 9.2 '): inside=True
    elif line.startswith('### 9.3 '): inside=False
    m=re.match(r'^\| (C\d\d(?:, C\d\d)*) \| (.*) \| [^|]* \|$',line) if inside else None
    if m:
        ids=m.group(1).split(', ')
        c=' / '.join(str(cnt(i)) for i in ids)
        k=sum(kf.get(i,0) for i in ids)
        if k: c+=f' (+{k} known-finding obligation{"s" if k>1 else ""})'
        line=f'| {m.group(1)} | {m.group(2)} | {c} |'
    out.append(line)
open(p,'w').write('\n'.join(out))
