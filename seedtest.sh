#!/bin/sh
# usage: seedtest.sh <seed-dir-name> [property-id ...]   applies the seeded change to /repo, runs the checks, undoes it
set -u
cd /verif
seed="$1"; shift
if ! git -C /repo diff --quiet; then echo "/repo has uncommitted changes" >&2; exit 2; fi
git -C /repo apply "/verif/seeded/$seed/patch.diff" || { echo "patch does not apply"; exit 2; }
for id in "$@"; do
  echo "== $seed against $id"
  ./check "$id" quick 2>&1 | grep -v "^note:" | tail -12
  echo "exit=$?"
done
git -C /repo checkout -- .
