# Per-property claims; mkmanifest.py turns this into MANIFEST.json.
PENDING = "not claimed yet in this revision: the contracts for this property have not been brought to the point where every obligation discharges on the unchanged tree (see DESIGN.md section 4 for the plan)"

CLAIMS = {
 "C03": {
  "text": "Proof, for all inputs, that the compile-time evaluation kernels compute what ECMA-262 prescribes: js_ast.ToInt32/ToUint32 equal the specification function jsToInt32 (transcribed from ECMA-262 7.1.6) for every float64. Each obligation is a postcondition on the real function (go/ssa of /repo), discharged by SMT (FP + bit-vector theories), unbounded.",
  "note": "NOT covered: every rewrite whose validity depends on side effects and evaluation order (SimplifyUnusedExpr, MangleIfExpr, mangleStmts, substitution), define/pure/drop handling. A kernel proof is not a proof of the whole property.",
  "technique": "contract-based deductive verification: WP-style VCs from go/ssa, SMT (z3/cvc5)",
  "design_ref": "DESIGN.md section 4 C03",
 },
}

NA = {k: PENDING for k in ["C01","C02","C04","C06","C07","C08","C09","C10","C11","C12","C14","C15","C16","C17","C18","C19","C20"]}
NA["C05"] = "Lowering correctness is equivalence between two JavaScript programs (native construct vs helper-call expansion; helpers are JS text in runtime.go); a Go-level contract can state an AST shape, not what the shape computes. The Go-level facts (a construct is lowered iff its feature bit is unsupported) are C14's gate obligations."
NA["C13"] = "Output re-parses / is a fixed point of print∘parse / every valid program is accepted are relations over the whole lexer+parser+printer against the ECMAScript and CSS grammars; no function's postcondition states them short of a verified parser."
