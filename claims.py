# Per-property claims; mkmanifest.py turns this into MANIFEST.json.
PENDING = "not claimed yet in this revision: the contracts for this property have not been brought to the point where every obligation discharges on the unchanged tree (see DESIGN.md section 4 for the plan)"

CLAIMS = {
 "C03": {
  "text": "Proof, for all inputs, that the compile-time evaluation kernels compute what ECMA-262 prescribes: js_ast.ToInt32/ToUint32 equal the specification function jsToInt32 (transcribed from ECMA-262 7.1.6) for every float64; FoldBinaryOperator's numeric arms (+ - * / % << >> >>> & | ^ < > <= >= == !=) equal the IEEE/ToInt32-based Number::* operations, its string arms equal code-unit lexicographic comparison (stringCompareUCS2 proved against a quantified specification with a loop invariant), and ** agrees with the Number::exponentiate special-case rows. Each obligation is a postcondition on the real function (go/ssa of /repo), discharged by SMT (FP + bit-vector theories), unbounded.",
  "note": "NOT covered: every rewrite whose validity depends on side effects and evaluation order (SimplifyUnusedExpr, MangleIfExpr, mangleStmts, substitution), define/pure/drop handling. A kernel proof is not a proof of the whole property.",
  "technique": "contract-based deductive verification: WP-style VCs from go/ssa, SMT (z3/cvc5)",
  "design_ref": "DESIGN.md section 4 C03",
 },
}

CLAIMS["C07"] = {
  "text": "Proof, for all inputs and all iteration counts, of the position arithmetic kernels of source maps: SourceMap.Find returns the last mapping at or before (line, column) on that line (binary search with quantified loop invariants, under the stated sortedness precondition); DecodeVLQUTF16 is total and terminates on every input; LineColumnOffset.ComesBefore is a strict total order; in SourceMapPieces.Finalize every path-substitution boundary before a mapping has been consumed when that mapping is re-based.",
  "note": "NOT covered: that the printer records the right original location for each token (whole printer), composition through input maps beyond Find's contract, sourcesContent plumbing, the VLQ encode/decode inverse (not yet under contract), chunk joining in the linker. Find's sortedness precondition and non-nil receiver are assumptions at its callers.",
  "technique": "contract-based deductive verification: loop invariants + WP-style VCs from go/ssa, SMT (z3/cvc5)",
  "design_ref": "DESIGN.md section 4 C07",
}
CLAIMS["C08"] = {
  "text": "Proof that every named comparator whose input order can depend on map iteration or goroutine arrival (logger.SortableMsgs, linker.crossChunkImportArray/crossChunkImportItemArray/stableRefArray/chunkOrderArray, renamer.StableSymbolCountArray/slotAndCountArray, ast.charAndCountArray, js_parser.scopeMemberArray, api.metafileArray) is asymmetric, transitive, and that incomparable elements agree on every compared key: the real Less methods are symbolically executed (go/ssa) inside lemma queries over arbitrary slices and indices. With sort.Sort/Stable this makes the sorted result a function of the multiset of keys.",
  "note": "NOT covered: interleavings themselves; map-iteration order inside loop bodies that do not end in a sort; key uniqueness where elements are built (e.g. that StableSourceIndex is taken from StableSourceIndices); absolute-path independence; helpers.Serializer ordering; process-global caches. sort.Sort/sort.Stable are trusted to sort according to Less.",
  "technique": "contract-based deductive verification: relational lemmas over inlined real comparators, SMT",
  "design_ref": "DESIGN.md section 4 C08",
}
CLAIMS["C14"] = {
  "text": "Proof of the feature-set algebra: JSFeature/CSSFeature.ApplyOverrides gives the override wherever the mask is set and the computed bit elsewhere (so `supported` is honoured in both directions), Has tests exactly the requested bits; compareVersions returns the sign of the lexicographic order on (major, minor, patch) with a pre-release sorting below; isVersionSupported holds iff the version lies in one of the half-open ranges (loop invariant, all range lists).",
  "note": "NOT covered: that parsed newer syntax is always lowered or reported (whole parser), the contents of the compatibility tables, gate dominance of syntax-creating minifier/linker sites (planned, not yet claimed), UnsupportedJSFeatures' map loops, validateSupported. compareVersions assumes version parts below 2^31 (established by the API's digit-limited parsing: assumption).",
  "technique": "contract-based deductive verification: WP-style VCs from go/ssa (bit-vector and integer), SMT",
  "design_ref": "DESIGN.md section 4 C14",
}
CLAIMS["C09"] = {
  "text": "Proof that (a) js_parser.Options.Equal, which keys the AST cache, implies agreement on every parser option (one postcondition per field incl. all JSX options, injected files element-wise, regexps, drop labels; nested loops with quantified invariants; helpers.StringArraysEqual under its own contract); (b) code that runs after parsing on ASTs shared with the cache writes only objects it allocates itself: frame obligations (inferred from every store in the static call graph, interface calls resolved by CHA) for js_printer.Print, css_printer.Print, js_ast.SimplifyUnusedExpr/SimplifyBooleanExpr/TryToInsertOptionalChain/InlinePrimitivesIntoTemplate/MaybeSimplifyNot, and an ownership contract with a loop invariant for linker.mergeAdjacentLocalStmts (it only extends the SLocal clone it created).",
  "note": "NOT covered: parser purity w.r.t. other files (assumption A9 of DESIGN.md), the caches' lookup code itself (cache.JSCache.Parse etc.), file-system watch recording and predicates, resolver caches, immutability of cached ASTs under the rest of the linker, writes to nested logger.Loc/ast.Ref fields of AST nodes when the nested field's address escapes, `append` into spare capacity of a cached slice. Callback fields HelperContext.isUnbound and js_printer.Options.RequireOrImportMetaForSource are assumed not to write the AST.",
  "technique": "contract-based deductive verification: per-field postconditions with loop invariants (SMT) + inferred-frame (assigns) obligations over go/ssa",
  "design_ref": "DESIGN.md section 4 C09, family F3/F11",
}
CLAIMS["C10"] = {
  "text": "Proof that the cross-chunk export alias allocator renamer.(*ExportRenamer).NextRenamedName returns a name that was not handed out before, records it, and never forgets an earlier name (postconditions over the abstract set view of its map, for all call histories of one renamer): aliases of one chunk are therefore pairwise distinct.",
  "note": "NOT covered: that grouping parts by entry-bit set yields once-only evaluation and initialise-before-read (needs JS module semantics), bit-set algebra and chunk keys, cross-chunk import/export wiring in computeCrossChunkDependencies, the cycle check. Only the alias-uniqueness kernel is claimed.",
  "technique": "contract-based deductive verification: WP-style VCs from go/ssa with a map model, SMT",
  "design_ref": "DESIGN.md section 4 C10",
}
CLAIMS["C12"] = {
  "text": "Proof that CSS structural equality, which licenses rule merging and duplicate-rule removal, is complete per node: for Token, NameToken, NamespacedName and 18 rule / media-query / selector node types, Equal implies the same node kind, equal scalar fields and equal child counts (lemmas over the symbolically executed real methods); TokensEqual/RulesEqual/ComplexSelectorsEqual/MediaQueriesEqual imply equal lengths and their declared frame (path compression of symbol links only) is checked. Colour bit-arithmetic: expandHex equals the CSS short-hex expansion, a colour printed in compact form has at most 4 (3) hex digits and expands back to itself, hexR/G/B/A invert byte packing, floatToByte clamps every float64 to a byte.",
  "note": "NOT covered: the cascade itself (selector matching, specificity, shorthand expansion), isSafeSelectors, nesting expansion, calc reduction, colour-space conversion, import-order and conditional-import wrapping in the linker, element-wise child equality (children are compared by dynamically dispatched Equal calls; only their count is in the proved view), case-insensitive at-keyword comparison.",
  "technique": "contract-based deductive verification: completeness lemmas over inlined real methods + bit-vector lemmas, SMT",
  "design_ref": "DESIGN.md section 4 C12, family F3",
}
CLAIMS["C15"] = {
  "text": "Proof, at the single store that assigns a minified name to a slot in renamer.(*MinifyRenamer).AssignNamesByFrequency, that for all inputs a default-namespace name is not in the reserved set (keywords, strict-mode words, free/unbound and pinned names), a label name is not a keyword, and the name of a symbol used as a JSX tag does not start with a lower-case ASCII letter (site obligations over the whole function with its nested loops).",
  "note": "NOT covered: injectivity of NumberToMinifiedName and distinctness of names within a slot namespace, numbered renaming (findUnusedName), nested-scope slot assignment, completeness of ComputeReservedNames, that the parser's scope tree matches JS scoping, property mangling, cross-chunk symbol registration in the linker.",
  "technique": "contract-based deductive verification: site obligations in WP-style VCs from go/ssa, SMT",
  "design_ref": "DESIGN.md section 4 C15",
}
CLAIMS["C11"] = {
  "text": "Proof that the exports/imports pattern machinery follows Node's algorithm: expansionKeysArray.Less is exactly PATTERN_KEY_COMPARE = -1 (and a strict order); in esmPackageImportsExportsResolve a key is passed over only if Node's PACKAGE_IMPORTS_EXPORTS_RESOLVE would not match it (loop invariant over the ordered keys) and a key's target is resolved only if Node would match it (site obligations at the calls of esmPackageTargetResolve), plus in-bounds slicing of the matched sub-path. One site obligation fails on the pinned tree and is a recorded known finding (request equal to the pattern base).",
  "note": "NOT covered: PACKAGE_TARGET_RESOLVE's status classification, condition order, directory walking, main/index probing, symlink real paths, tsconfig paths semantics, browser map, the file system and its caches. strings.IndexByte/HasPrefix/HasSuffix are trusted contracts.",
  "technique": "contract-based deductive verification: spec function transcribed from Node's algorithm, loop invariant + site obligations, SMT",
  "design_ref": "DESIGN.md section 4 C11",
}
CLAIMS["C16"] = {
  "text": "Proof of absence of panics (index, slice bounds, nil dereference, division, integer overflow where it feeds an index) and of termination (decreases clauses) for byte-level kernels that see attacker-controlled input first: sourcemap.DecodeVLQUTF16 (total), SourceMap.Find, js_ast.stringCompareUCS2, compat.compareVersions/isVersionSupported, helpers.StringArraysEqual, resolver.esmPackageImportsExportsResolve (sub-path slicing), resolver.matchTSConfigPaths (wildcard slicing); plus site rules that names taken from the source for labels and class expressions are checked for representability before a symbol is created (the printer otherwise panics).",
  "note": "NOT covered: the recursive-descent parsers' own index arithmetic and recursion depth (stack exhaustion is a resource fault outside the model), the lexers, panic recovery plumbing and channel draining, deadlock, every function not listed. Preconditions such as non-nil receivers are assumptions at callers.",
  "technique": "contract-based deductive verification: generated safety obligations + loop invariants/variants (SMT) and dominance-based site rules over go/ssa",
  "design_ref": "DESIGN.md section 4 C16, family F8",
}
CLAIMS["C17"] = {
  "text": "Proof of the effect licences of pkg/api.rebuildImpl: every WriteFile/MkdirAll is dominated, inside the writer goroutine, by the single-assignment cell shouldWriteFiles (stored once with !log.HasErrors() before the goroutines are created, never written by them) and, where the goroutine is created, by args.write and !WriteToStdout; the writer returns without writing only if writing is disabled or ReadFile of the same path returned bytes equal to the new contents; os.Remove is reached only under args.write and !WriteToStdout. In bundler.(*Bundle).Compile the set of protected paths provably contains the canonical path of every reachable input file in the file namespace (quantified loop invariant and loop-exit obligation) before outputs are compared against it.",
  "note": "NOT covered: partial writes when MkdirAll/WriteFile themselves fail mid-way, symlink aliasing of paths, that outputs lie inside the output directory, the duplicate-output-path filter, the CLI's own writes, plugin on-end behaviour, latestHashes bookkeeping. canonicalFileSystemPathForWindows is modelled as an uninterpreted pure function.",
  "technique": "contract-based deductive verification: effect-licence site obligations (control/data cone over go/ssa) + quantified loop invariants (SMT)",
  "design_ref": "DESIGN.md section 4 C17, family F5",
}
CLAIMS["C20"] = {
  "text": "Proof of the synchronisation discipline of the build context: every access to internalContext.activeBuild/recentBuild/didDispose/latestHashes happens with the context mutex held (must-held lockset dataflow, intersection at joins, immediately-invoked closures inherit the lockset), every Lock is released on every path, the mutex is never released unheld, and nothing that can reach WaitGroup.Wait is called while it is held; Cancel and Dispose return only after the build in progress has been waited for (postcondition with a ghost `waited` flag, SMT); every goroutine in api, bundler and linker that signals a wait group is announced with Add before its go statement.",
  "note": "NOT covered - and not coverable by this family: absence of deadlock in general, progress, that a caller observes the result of exactly one build, plugin callback ordering beyond the Add-before-go rule, once-only loading under races, the stdio protocol's one-response-per-request rule, data-race freedom of everything not in the protector table. Goroutine interference is not modelled; one benign wait under the mutex in Serve is exempted with a stated reason.",
  "technique": "contract-based deductive verification: lockset/hand-off obligations over go/ssa + ghost-state postconditions (SMT)",
  "design_ref": "DESIGN.md section 4 C20, family F9",
}
CLAIMS["C06"] = {
  "text": "Proof of the constant-enum clause: TypeScript enum initialisers and const inlining are evaluated by js_ast.FoldBinaryOperator / ToInt32 / ToUint32 (with every operator enabled), which are proved to compute the ECMA-262 Number::* operations, the ToInt32-based shifts and bitwise operators, code-unit string comparison and the Number::exponentiate special cases for all operand values. The obligations are those of C03, reported here because a wrong fold changes an emitted enum value.",
  "note": "NOT covered: type-syntax skipping and its backtracking, that typed and untyped code compile identically, unused-import elision, namespaces and enum/namespace merging, parameter properties, decorators, useDefineForClassFields and tsconfig target handling, enum auto-increment. These are whole-parser relations.",
  "technique": "contract-based deductive verification: WP-style VCs from go/ssa (FP + bit-vector), SMT",
  "design_ref": "DESIGN.md section 4 C06",
}
CLAIMS["C18"] = {
  "text": "Proof that the content hash covers what the final bytes of a chunk depend on, as data-flow obligations over go/ssa: in generateIsolatedHash the bytes between placeholders, part ranges, path template, public path and linked legal comments reach the digest through the length-prefixed writer; in appendIsolatedHashesForImportedChunks the recursive visit of every cross-chunk import is unconditional (only the visited check guards it) and takes the import's chunk index, and the asset path mixed in is the path relative to the output directory; in the bundler the template tested for [hash] is the template that names the file. Two coverage obligations (which chunk a placeholder refers to) fail on the pinned tree and are recorded known findings with a reproducing pair of builds.",
  "note": "NOT covered: collision resistance of xxhash, that every reference in emitted text goes through a unique key, placeholder splitting/substitution arithmetic, final-name template expansion, injectivity of the length-prefixed encoding (stated in DESIGN.md, not mechanised).",
  "technique": "contract-based verification: digest-coverage / unguarded-traversal / provenance obligations decided on the data and control cones of go/ssa",
  "design_ref": "DESIGN.md section 4 C18",
}
CLAIMS["C19"] = {
  "text": "Proof of the byte-count clause as provenance obligations over go/ssa: the `bytes` reported for a chunk is len() of the very value stored as the output file's contents (taken after the source-map comment is appended); the values stored as contents are the finished joiner output / source map / legal comments; accurateFinalByteCount measures substituted paths relative to the importing chunk's own directory in both of its arms (as substituteFinalPaths does).",
  "note": "NOT covered: the imports/exports/inputs lists of the metafile, that tree-shaken inputs contribute zero, Joiner length accounting, the relational equality accurateFinalByteCount = length of substituteFinalPaths' output (only the argument provenance is checked).",
  "technique": "contract-based verification: provenance (data-cone) obligations over go/ssa",
  "design_ref": "DESIGN.md section 4 C19",
}
CLAIMS["C01"] = {
  "text": "Proof of the literal/charset clause for the encoding layer: helpers.encodeWTF8Rune produces the canonical WTF-8 byte sequence of every code point and helpers.DecodeWTF8Rune is its left inverse, rejects overlong forms, never reads past the string and always makes progress (bit-vector proofs, loop-free, complete); in js_printer.printUnquotedUTF16 (strings and templates) every append site is proved to emit only ASCII bytes when the ASCII charset is selected, never the raw delimiter without a backslash it emitted itself, a raw line feed only inside a template or as a line continuation and never a raw carriage return, with all look-ahead reads in range and the scan terminating; UTF-16 helper loops (surrogate look-ahead, equality) are proved against quantified specifications.",
  "note": "NOT covered: everything about programs - parenthesisation by precedence, ASI and `in`/arrow hazards, token gluing, JSX rewriting, number printing, regular expressions, identifier quoting (QuoteIdentifier iterates over runes of a Go string, whose decoding is not modelled), the decode-inverse of the full JS escape grammar, bytes produced by fmt.Sprintf at two sites (assumed ASCII, listed), StringToUTF16/UTF16ToString.",
  "technique": "contract-based deductive verification: bit-vector codec proofs + per-append site obligations with loop invariants (SMT)",
  "design_ref": "DESIGN.md section 4 C01",
}
CLAIMS["C04"] = {
  "text": "Proof, for all module graphs and all call depths, of the liveness-marking kernel of tree shaking: linker.markPartLiveForTreeShaking and markFileLiveForTreeShaking (mutually recursive; each is checked against the other's contract) never clear an IsLive flag (monotone frame: only Part.IsLive and LinkerFile.IsLive are written), mark the requested part/file, and each activation that newly marks a part marks every part in its Dependencies and its file (so by induction on the call tree the final live set is closed under part dependencies: a kept statement never references a part that was dropped); each activation that newly marks a JavaScript file marks every part that is not CanBeRemovedIfUnused, every part holding an import statement that must be kept for its side effects (internal target with HasSideEffects or IgnoreDCEAnnotations; external target not flagged side-effect free), and the target file of every such import. Quantified loop invariants for all three loops; SMT, unbounded.",
  "note": "NOT covered: the purity classification itself (StmtsCanBeRemovedIfUnused / ExprCanBeRemovedIfUnused decide CanBeRemovedIfUnused - a statement about JavaScript semantics, no Go-level contract states it), how Dependencies are computed from symbol uses, shouldRemoveImportExportStmt/convertStmtsForChunk, entry-point seeding in treeShakingAndCodeSplitting, sideEffects parsing in the resolver. Assumed as preconditions (data-structure invariants established elsewhere, unchecked): part dependencies point into JavaScript files, fewer than 2^32 parts per file. Termination of the recursion is not proved. The closure is stated per activation; the global closure follows by induction over the call tree, which is argued in DESIGN.md, not machine-checked.",
  "technique": "contract-based deductive verification: mutually recursive contracts with quantified loop invariants, WP-style VCs from go/ssa, SMT (z3/cvc5)",
  "design_ref": "DESIGN.md section 4 C04 and 9.2",
}
NA = {k: PENDING for k in ["C02"]}
NA["C02"] = "No contract within reach carries this property at present: import/export matching, wrapper selection, evaluation order and interop are statements about the semantics of the emitted JavaScript; the two Go-level kernels planned in DESIGN.md (data-URL round trip, symbol union-find with path compression) need a decode specification over strings and an inductive heap-shape argument that the generator does not support (only the bounds safety of the data-URL escaper is proved, and it is reported under C16)."
NA["C05"] = "Lowering correctness is equivalence between two JavaScript programs (native construct vs helper-call expansion; helpers are JS text in runtime.go); a Go-level contract can state an AST shape, not what the shape computes. The Go-level facts (a construct is lowered iff its feature bit is unsupported) are C14's gate obligations."
NA["C13"] = "Output re-parses / is a fixed point of print∘parse / every valid program is accepted are relations over the whole lexer+parser+printer against the ECMAScript and CSS grammars; no function's postcondition states them short of a verified parser."
