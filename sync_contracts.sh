#!/bin/sh
# Copies the contract files (source of truth: /verif/contracts) into /repo as comment-only files guarded by
# the build tag `verif`, and commits them there as a hook commit. Records the commit in hook_commits.json.
set -eu
cd /verif
changed=0
for f in $(cd contracts && find . -name 'zz_contracts*_verif.go' ! -path './_shared/*'); do
  dst="/repo/$f"
  if ! cmp -s "contracts/$f" "$dst" 2>/dev/null; then cp "contracts/$f" "$dst"; changed=1; fi
done
if [ "$changed" = 1 ]; then
  git -C /repo add -A
  git -C /repo commit -qm "hook(verif): contract files (comment-only, build tag verif)"
  h=$(git -C /repo rev-parse HEAD)
  python3 - "$h" <<'PY'
import json,sys,os
p='/verif/hook_commits.json'
l=json.load(open(p)) if os.path.exists(p) else []
l.append(sys.argv[1]); json.dump(l,open(p,'w'))
PY
  python3 mkmanifest.py
  echo "hook commit $h"
else
  echo "contracts already in sync"
fi
